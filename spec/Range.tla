----------------------------------- MODULE Range -----------------------------------
(* C03 - nothing is written outside the byte range a component was given.            *)
(*                                                                                 *)
(* A device is a sequence of units; a component (a filesystem at [start,start+size),  *)
(* the contents of one partition, a partition table with its own sectors) owns a set  *)
(* of units.  Every action of a component is a set of unit writes; the safety         *)
(* property is that a unit outside the owner's set never changes.  The model below    *)
(* is the frame; the per-call obligations are judged on recorded events, where the    *)
(* instrumented device reports every WriteAt that leaves the owner's range and the    *)
(* guard bytes around it are compared with their background pattern.                  *)
EXTENDS Integers, Sequences, FiniteSets, TLC
CONSTANTS Units, Owned           \* Units: 1..N; Owned: the component's units
VARIABLES dev, wrote             \* dev: unit -> version; wrote: units written so far
vars == <<dev, wrote>>
Init == dev = [u \in Units |-> 0] /\ wrote = {}
\* what the component is allowed to do: rewrite any subset of its own units
Write(S) == /\ S \subseteq Owned /\ S # {}
            /\ dev' = [u \in Units |-> IF u \in S THEN dev[u] + 1 ELSE dev[u]]
            /\ wrote' = wrote \cup S
Next == \E S \in SUBSET Owned : Write(S)
Spec == Init /\ [][Next]_vars
Bound == \A u \in Units : dev[u] <= 2
OutsideUntouched == \A u \in Units \ Owned : dev[u] = 0
Frame == [][\A u \in Units \ Owned : dev'[u] = dev[u]]_vars

\* ---- the configuration space executed on the real code (filesystem components) ----
Kinds   == {"fat12", "fat16", "fat32", "ext4", "iso", "squashfs"}
Starts  == {"s0", "ssec", "s1m", "s5g"}        \* 0, one sector, 1 MiB, beyond 4 GiB (sparse device)
SizeCls == {"small", "odd", "mid"}              \* smallest practical / not a multiple of the cluster or block / mid-range
Works   == {"fill", "fillodd", "dirgrow", "mixed", "oversize", "exactfit", "exactdirs"}
\* fill: write until the filesystem reports no space, free every other file, fill again with mixed sizes;
\* fillodd: fill with files of an odd size (one write each), free every other one, then refill with
\*   files of 256K, 100K, 37K, 5K, 1K, each size until it is refused;
\* exactfit (finalized kinds): the range is exactly as large as the image needs (learned from a first,
\*   roomy build through the independent parser) and the last file ends on a block boundary;
\* exactdirs: the same with 70 directories of 20-character names (the path tables - Joliet's are twice as
\*   large as the primary ones - and the directory / inode tables cross block boundaries), Rock Ridge + Joliet;
\* dirgrow: directories grown far past one cluster / block; mixed: create, overwrite, append,
\* rename, remove, attributes; oversize (finalized kinds): a tree larger than the range
Dims == [kind : Kinds, start : Starts, size : SizeCls, work : Works]
Finalized(k) == k \in {"iso", "squashfs"}
Tuples == {t \in Dims : (t.work \in {"oversize", "exactfit", "exactdirs"} => Finalized(t.kind)) /\ (t.work \in {"fill", "fillodd"} => ~Finalized(t.kind))}

\* ---- predicate over one recorded event, whatever produced it ----
\* ev.src: "fs" (a tuple above), "fat" / "ext4" (a call of a generated behaviour of FatTree / ExtTree),
\*   "image" (an ISO/squashfs tuple of RoImage), "table" (a partition table tuple), "partio" (partition contents);
\* ev.outside: bytes that WriteAt calls placed outside the owner's range during the call;
\* ev.guards: bytes outside the range that differ from the background afterwards
P_C03(ev) == ev.outside = 0 /\ ev.guards = 0
===============================================================================
