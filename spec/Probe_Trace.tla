-------------------------------- MODULE Probe_Trace --------------------------------
EXTENDS Probe, Json
VARIABLE l
Trace == ndJsonDeserialize("trace.ndjson")
Ev == Trace[l]
TInit == l = 1 /\ TLCSet(1, 0) /\ range = Blank /\ last = "none" /\ hist = <<>>
TStep == /\ l <= Len(Trace)
         /\ (IF P_C12(Ev) THEN TRUE ELSE PrintT(<<"MISMATCH", l, Ev.want, Ev.got>>))
         /\ (IF Ev.got = Ev.shape.model \/ ~P_C12(Ev) THEN TRUE ELSE PrintT(<<"DRIFT", l, Ev.shape.hist, Ev.shape.model, Ev.got>>))
         /\ l' = l + 1 /\ UNCHANGED vars
TSpec == TInit /\ [][TStep]_<<vars, l>>
HW == TLCSet(1, IF l > TLCGet(1) THEN l ELSE TLCGet(1))
Accepted == IF TLCGet(1) = Len(Trace) + 1 THEN TRUE ELSE Print(<<"REJECTED", TLCGet(1)>>, FALSE)
===============================================================================
