---------------------------- MODULE PartTable_Trace ----------------------------
(* One line of trace.ndjson per executed shape tuple; Prop selects which       *)
(* property's predicate judges the events.                                     *)
EXTENDS PartTable, Json
CONSTANT Prop
VARIABLE l
Trace == ndJsonDeserialize("trace.ndjson")
Ev == Trace[l]
TInit == l = 1 /\ TLCSet(1, 0)
TStep == /\ l <= Len(Trace)
         /\ (IF Judge(Prop, Ev) THEN TRUE ELSE PrintT(<<"MISMATCH", l, Ev.shape>>))
         /\ l' = l + 1
TSpec == TInit /\ [][TStep]_l
HW == TLCSet(1, IF l > TLCGet(1) THEN l ELSE TLCGet(1))
Accepted == IF TLCGet(1) = Len(Trace) + 1 THEN TRUE ELSE Print(<<"REJECTED", TLCGet(1)>>, FALSE)
===============================================================================
