------------------------------- MODULE ExtTree_Gen -------------------------------
(* Behaviour generation for C04/C05/C19: call sequences of length D over the        *)
(* boundary alphabet; the model state follows the accept branches.                   *)
EXTENDS ExtTree, Json
CONSTANTS MaxLen, D, Neg, WithAttr,
          WithTrunc          \* include Truncate(p, n) for n around 0, the block boundary and the current length
VARIABLES hist, tag,
          held        \* the file a write handle is being kept open on ("none": no handle is kept)
gvars == <<vars, hist, tag, held>>
\* Handles that stay open ACROSS other calls (as in FatTree_Gen): Hold(p) opens a read-write handle on p and
\* keeps it; the next WriteAt / Append to p goes through it (log field held = TRUE) and closes it.  In
\* between, the attribute setters may be called on p itself: what they set must survive the write through
\* the older handle.  The file is not removed or truncated while its handle is kept.
NoHold == held = "none"
Via(p) == held = p
Offs(p) == {0, 1, 3, 4, 5} \cup {Len(tree[p].data), Len(tree[p].data) + 1}
Lens == {1, 3, 4, 5}
Log(r) == hist' = Append(hist, r)
Go(can, t2) == tree' = (IF can THEN t2 ELSE tree) /\ out' = "ok" /\ UNCHANGED attr
Modes == {"0644", "0755", "4711", "2070", "1777", "0000", "7777"}      \* 4 octal digits: setuid/setgid/sticky + rwx bits
Ids   == {"0", "1000", "65535", "65536", "4294967295"}
Times == {"1", "86399", "315532800", "2147483647", "2147483648", "4294967296"}   \* seconds since 1970 (classes around 1980/2038/2106)
Targets == {"t1", "t59", "t60", "t61", "t255", "t4095", "abs"}
Init == tree = [p \in Paths |-> None] /\ attr = [p \in Paths |-> NoAttr] /\ out = "ok" /\ tag = 1 /\ hist = <<>> /\ held = "none"
Next ==
  /\ Len(hist) < D
  /\ \/ \E p \in Dirs : (Neg \/ ~Exists(p)) /\ Go(CanMkdir(p), MkdirT(p)) /\ Log([a |-> "Mkdir", p |-> p]) /\ UNCHANGED <<tag, held>>
     \/ \E p \in Files : (Neg \/ CanCreate(p)) /\ ~Exists(p) /\ Go(CanCreate(p), CreateT(p)) /\ Log([a |-> "Create", p |-> p]) /\ UNCHANGED <<tag, held>>
     \/ \E p \in Files : NoHold /\ IsFile(p) /\ held' = p /\ Go(TRUE, tree) /\ Log([a |-> "Hold", p |-> p]) /\ UNCHANGED tag
     \/ \E p \in Files : CanWrite(p) /\ \E off \in Offs(p), len \in Lens :
           /\ off + len <= MaxLen
           /\ Go(TRUE, WriteT(p, off, len, tag)) /\ Log([a |-> "WriteAt", p |-> p, off |-> off, len |-> len, tag |-> tag, held |-> Via(p)]) /\ tag' = tag + 1
           /\ held' = (IF Via(p) THEN "none" ELSE held)
     \/ \E p \in Files : CanWrite(p) /\ \E len \in {1, 4, 5} :
           /\ Len(tree[p].data) + len <= MaxLen
           /\ Go(TRUE, AppendT(p, len, tag)) /\ Log([a |-> "Append", p |-> p, len |-> len, tag |-> tag, held |-> Via(p)]) /\ tag' = tag + 1
           /\ held' = (IF Via(p) THEN "none" ELSE held)
     \/ \E p \in Files : Via(p) /\ \E len \in {1, 5} :          \* the held file grows through ANOTHER handle; the kept one stays open
           /\ Len(tree[p].data) + len <= MaxLen
           /\ Go(TRUE, AppendT(p, len, tag)) /\ Log([a |-> "Append", p |-> p, len |-> len, tag |-> tag, held |-> FALSE]) /\ tag' = tag + 1
           /\ UNCHANGED held
     \/ /\ WithTrunc
        /\ \E p \in Files : CanWrite(p) /\ \E n \in {0, 1, CU, Len(tree[p].data) - 1, Len(tree[p].data) + 1, Len(tree[p].data) + CU + 1} :
              /\ n >= 0 /\ n <= MaxLen + CU + 1 /\ n # Len(tree[p].data)
              /\ p # held /\ Go(TRUE, TruncateT(p, n)) /\ Log([a |-> "Truncate", p |-> p, off |-> n]) /\ UNCHANGED <<tag, held>>
     \* Truncate aimed at a symlink or a directory: whatever the answer, nothing changes
     \/ /\ WithTrunc /\ Neg
        /\ \E p \in Links \cup Dirs, n \in {0, 1} : Exists(p) /\ Go(FALSE, tree) /\ Log([a |-> "Truncate", p |-> p, off |-> n]) /\ UNCHANGED <<tag, held>>
     \/ \E p \in Links, t \in Targets : (Neg \/ CanSymlink(p)) /\ Go(CanSymlink(p), SymlinkT(p, t)) /\ Log([a |-> "Symlink", p |-> p, t |-> t]) /\ UNCHANGED <<tag, held>>
     \/ \E p \in Paths : p # held /\ (CanRemove(p) \/ (Neg /\ p \in {"d", "a"})) /\ Go(CanRemove(p), RemoveT(p)) /\ Log([a |-> "Remove", p |-> p]) /\ UNCHANGED <<tag, held>>
     \/ /\ WithAttr
        /\ \E p \in Files \cup Dirs : CanAttr(p) /\
              \/ \E m \in Modes : Go(TRUE, tree) /\ Log([a |-> "Chmod", p |-> p, v |-> m])
              \/ \E u \in Ids, g \in {"0", "4294967295"} : Go(TRUE, tree) /\ Log([a |-> "Chown", p |-> p, v |-> u, w |-> g])
              \/ \E t \in Times : Go(TRUE, tree) /\ Log([a |-> "Chtimes", p |-> p, v |-> t, w |-> "1000000000"])
        /\ UNCHANGED <<tag, held>>
     \/ /\ Neg /\ ~Exists("b") /\ Go(FALSE, tree) /\ Log([a |-> "WriteAt", p |-> "b", off |-> 0, len |-> 1, tag |-> tag, held |-> FALSE]) /\ tag' = tag + 1 /\ UNCHANGED held
     \* a write handle is asked for on a DIRECTORY: refused, nothing changes (the directory stays a directory)
     \/ /\ Neg /\ \E p \in Dirs, w \in {"WriteAt", "Append"} : Exists(p) /\ Go(FALSE, tree)
           /\ Log([a |-> w, p |-> p, off |-> 0, len |-> 1, tag |-> tag, held |-> FALSE]) /\ tag' = tag + 1 /\ UNCHANGED held
Spec == Init /\ [][Next]_gvars
Emit == (Len(hist) = D) => PrintT(<<"BEH", ToJson(hist)>>)
View == <<tree, hist, held>>
===============================================================================
