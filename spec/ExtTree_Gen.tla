------------------------------- MODULE ExtTree_Gen -------------------------------
(* Behaviour generation for C04/C05/C19: call sequences of length D over the        *)
(* boundary alphabet; the model state follows the accept branches.                   *)
EXTENDS ExtTree, Json
CONSTANTS MaxLen, D, Neg, WithAttr,
          WithTrunc          \* include Truncate(p, n) for n around 0, the block boundary and the current length
VARIABLES hist, tag
gvars == <<vars, hist, tag>>
Offs(p) == {0, 1, 3, 4, 5} \cup {Len(tree[p].data), Len(tree[p].data) + 1}
Lens == {1, 3, 4, 5}
Log(r) == hist' = Append(hist, r)
Go(can, t2) == tree' = (IF can THEN t2 ELSE tree) /\ out' = "ok" /\ UNCHANGED attr
Modes == {"0644", "0755", "4711", "2070", "1777", "0000", "7777"}      \* 4 octal digits: setuid/setgid/sticky + rwx bits
Ids   == {"0", "1000", "65535", "65536", "4294967295"}
Times == {"1", "86399", "315532800", "2147483647", "2147483648", "4294967296"}   \* seconds since 1970 (classes around 1980/2038/2106)
Targets == {"t1", "t59", "t60", "t61", "t255", "t4095", "abs"}
Init == tree = [p \in Paths |-> None] /\ attr = [p \in Paths |-> NoAttr] /\ out = "ok" /\ tag = 1 /\ hist = <<>>
Next ==
  /\ Len(hist) < D
  /\ \/ \E p \in Dirs : (Neg \/ ~Exists(p)) /\ Go(CanMkdir(p), MkdirT(p)) /\ Log([a |-> "Mkdir", p |-> p]) /\ UNCHANGED tag
     \/ \E p \in Files : (Neg \/ CanCreate(p)) /\ ~Exists(p) /\ Go(CanCreate(p), CreateT(p)) /\ Log([a |-> "Create", p |-> p]) /\ UNCHANGED tag
     \/ \E p \in Files : CanWrite(p) /\ \E off \in Offs(p), len \in Lens :
           /\ off + len <= MaxLen
           /\ Go(TRUE, WriteT(p, off, len, tag)) /\ Log([a |-> "WriteAt", p |-> p, off |-> off, len |-> len, tag |-> tag]) /\ tag' = tag + 1
     \/ \E p \in Files : CanWrite(p) /\ \E len \in {1, 4, 5} :
           /\ Len(tree[p].data) + len <= MaxLen
           /\ Go(TRUE, AppendT(p, len, tag)) /\ Log([a |-> "Append", p |-> p, len |-> len, tag |-> tag]) /\ tag' = tag + 1
     \/ /\ WithTrunc
        /\ \E p \in Files : CanWrite(p) /\ \E n \in {0, 1, CU, Len(tree[p].data) - 1, Len(tree[p].data) + 1, Len(tree[p].data) + CU + 1} :
              /\ n >= 0 /\ n <= MaxLen + CU + 1 /\ n # Len(tree[p].data)
              /\ Go(TRUE, TruncateT(p, n)) /\ Log([a |-> "Truncate", p |-> p, off |-> n]) /\ UNCHANGED tag
     \/ \E p \in Links, t \in Targets : (Neg \/ CanSymlink(p)) /\ Go(CanSymlink(p), SymlinkT(p, t)) /\ Log([a |-> "Symlink", p |-> p, t |-> t]) /\ UNCHANGED tag
     \/ \E p \in Paths : (CanRemove(p) \/ (Neg /\ p \in {"d", "a"})) /\ Go(CanRemove(p), RemoveT(p)) /\ Log([a |-> "Remove", p |-> p]) /\ UNCHANGED tag
     \/ /\ WithAttr
        /\ \E p \in Files \cup Dirs : CanAttr(p) /\
              \/ \E m \in Modes : Go(TRUE, tree) /\ Log([a |-> "Chmod", p |-> p, v |-> m])
              \/ \E u \in Ids, g \in {"0", "4294967295"} : Go(TRUE, tree) /\ Log([a |-> "Chown", p |-> p, v |-> u, w |-> g])
              \/ \E t \in Times : Go(TRUE, tree) /\ Log([a |-> "Chtimes", p |-> p, v |-> t, w |-> "1000000000"])
        /\ UNCHANGED tag
     \/ /\ Neg /\ ~Exists("b") /\ Go(FALSE, tree) /\ Log([a |-> "WriteAt", p |-> "b", off |-> 0, len |-> 1, tag |-> tag]) /\ tag' = tag + 1
Spec == Init /\ [][Next]_gvars
Emit == (Len(hist) = D) => PrintT(<<"BEH", ToJson(hist)>>)
View == <<tree, hist>>
===============================================================================
