------------------------------ MODULE FatTree_Trace ------------------------------
(* Trace validation for C01.  trace.ndjson holds many behaviours recorded on    *)
(* real FAT12/16/32 volumes, each starting with a Reset event.  Every event      *)
(* carries the call, its result class and the PROJECTION of the real volume      *)
(* after the call: api (walk of the live filesystem object: listings + full      *)
(* contents mapped back to write tags per unit), api2 (the same after re-opening *)
(* the image from its bytes), same (content re-read through the writing handle), *)
(* extra (entries outside the path universe).  A call must be explained by its   *)
(* accept branch or by its refuse branch; otherwise <<"MISMATCH", l, ..>> is     *)
(* printed and the rest of that behaviour is skipped.                            *)
EXTENDS FatTree, Json
VARIABLES l, skip
tvars == <<vars, l, skip>>
Trace == ndJsonDeserialize("trace.ndjson")
Ev == Trace[l]
AsTree(j) == [p \in Paths |-> j[p]]
Api  == AsTree(Ev.api)
Api2 == AsTree(Ev.api2)
NodeOK(n, p) == n.kind \in (IF p \in Dirs THEN {"none", "dir"} ELSE {"none", "file"})
Clean == Ev.extra = <<>>

Accept(can, t2) == /\ Ev.res = "ok" /\ can /\ Clean
                   /\ Api = t2 /\ Api2 = t2
                   /\ tree' = t2 /\ out' = "ok" /\ UNCHANGED total
Refuse(touched) == /\ Ev.res = "err" /\ Clean
                   /\ Api = Api2
                   /\ OthersUnchanged(Api, touched)
                   /\ \A p \in touched : NodeOK(Api[p], p)
                   /\ tree' = Api /\ out' = "err" /\ UNCHANGED total
SameHandleOK(p) == Ev.res = "ok" => Ev.same = tree'[p].data     \* re-read through the writing handle

TMkdir  == Ev.a = "Mkdir"  /\ (Accept(CanMkdir(Ev.p), MkdirT(Ev.p)) \/ Refuse({Ev.p}))
TCreate == Ev.a = "Create" /\ (Accept(CanCreate(Ev.p), CreateT(Ev.p)) \/ Refuse({Ev.p}))
TWrite  == Ev.a = "WriteAt" /\ (Accept(CanWrite(Ev.p), IF CanWrite(Ev.p) THEN WriteT(Ev.p, Ev.off, Ev.len, Ev.tag) ELSE tree) \/ Refuse({Ev.p}))
                            /\ SameHandleOK(Ev.p)
TAppend == Ev.a = "Append" /\ (Accept(CanWrite(Ev.p), IF CanWrite(Ev.p) THEN AppendT(Ev.p, Ev.len, Ev.tag) ELSE tree) \/ Refuse({Ev.p}))
                           /\ SameHandleOK(Ev.p)
TTrunc  == Ev.a = "Trunc"  /\ (Accept(CanWrite(Ev.p), IF CanWrite(Ev.p) THEN TruncT(Ev.p) ELSE tree) \/ Refuse({Ev.p}))
TRename == Ev.a = "Rename" /\ Ev.p \in Files /\ (Accept(CanRename(Ev.p, Ev.q), IF CanRename(Ev.p, Ev.q) THEN RenameT(Ev.p, Ev.q) ELSE tree) \/ Refuse({Ev.p, Ev.q}))
\* a directory is renamed with everything in it
TRenDir == Ev.a = "Rename" /\ Ev.p \in Dirs /\ Ev.q \in Dirs
           /\ (Accept(CanRenameDir(Ev.p, Ev.q), IF CanRenameDir(Ev.p, Ev.q) THEN RenameDirT(Ev.p, Ev.q) ELSE tree)
               \/ Refuse({Ev.p, Ev.q} \cup Children(Ev.p) \cup Children(Ev.q)))
TRemove == Ev.a = "Remove" /\ (Accept(CanRemove(Ev.p), RemoveT(Ev.p)) \/ Refuse({Ev.p}))
\* Fill: k whole clusters were appended before the volume refused the next one
TFill   == /\ Ev.a = "Fill" /\ Ev.res = "full" /\ Clean
           /\ IF IsFile(Ev.p)
                THEN /\ FillOK(Ev.p, Ev.k)
                     /\ LET t2 == FillT(Ev.p, Ev.k, Ev.tag) IN Api = t2 /\ Api2 = t2 /\ tree' = t2
                ELSE Ev.k = 0 /\ Api = tree /\ Api2 = tree /\ tree' = tree      \* nothing to fill: nothing changes
           /\ out' = "full" /\ UNCHANGED total
\* Churn: n temporary files outside the universe were created (until refusal) and removed again
\* Hold: a read-write handle on an existing file is opened and kept across the following calls; nothing changes
THold   == /\ Ev.a = "Hold" /\ Clean /\ (Ev.res = "ok" => IsFile(Ev.p)) /\ Ev.res \in {"ok", "err"}       \* refused: e.g. the file does not exist
           /\ Api = tree /\ Api2 = tree /\ UNCHANGED vars
TTruncDir == /\ Ev.a = "TruncDir" /\ Ev.res \in {"ok", "err"} /\ Clean /\ Api = tree /\ Api2 = tree /\ UNCHANGED vars
TChurn  == /\ Ev.a = "Churn" /\ Ev.res = "ok" /\ Clean
           /\ Api = tree /\ Api2 = tree /\ UNCHANGED vars
Match == Ev.panic = "" /\ (TMkdir \/ TCreate \/ TWrite \/ TAppend \/ TTrunc \/ TRename \/ TRenDir \/ TRemove \/ TFill \/ TChurn \/ TTruncDir \/ THold)

InRange  == l <= Len(Trace)
Step     == InRange /\ ~skip /\ Ev.a # "Reset" /\ Match /\ l' = l + 1 /\ UNCHANGED skip
Mismatch == /\ InRange /\ ~skip /\ Ev.a # "Reset" /\ ~ENABLED Match
            /\ PrintT(<<"MISMATCH", l, Ev.a, Ev.res>>)
            /\ skip' = TRUE /\ l' = l + 1 /\ UNCHANGED vars
SkipStep == InRange /\ skip /\ Ev.a # "Reset" /\ l' = l + 1 /\ UNCHANGED <<vars, skip>>
Reset    == /\ InRange /\ Ev.a = "Reset"
            /\ tree' = [p \in Paths |-> None] /\ total' = Ev.total /\ out' = "ok"
            /\ skip' = ~(Api = [p \in Paths |-> None] /\ Api2 = Api /\ Clean)   \* a fresh volume is empty
            /\ (IF skip' THEN PrintT(<<"MISMATCH", l, "Reset", "notempty">>) ELSE TRUE)
            /\ l' = l + 1
TInit == /\ l = 1 /\ skip = TRUE /\ tree = [p \in Paths |-> None] /\ total = 0 /\ out = "ok" /\ TLCSet(1, 0)
TNext == Step \/ Mismatch \/ SkipStep \/ Reset
TSpec == TInit /\ [][TNext]_tvars
HW == TLCSet(1, IF l > TLCGet(1) THEN l ELSE TLCGet(1))
Accepted == IF TLCGet(1) = Len(Trace) + 1 THEN TRUE ELSE Print(<<"REJECTED", TLCGet(1)>>, FALSE)
===============================================================================
