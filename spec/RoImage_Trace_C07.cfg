SPECIFICATION TSpec
CONSTANTS
  Prop = "C07"
  Paths = {"a"}
CONSTRAINT HW
POSTCONDITION Accepted
CHECK_DEADLOCK FALSE
