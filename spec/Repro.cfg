SPECIFICATION Spec
CONSTANTS
  Ops = {"create", "write", "rename", "trunc", "mkdir", "remove"}
  Leaky = {}
  MaxClock = 5
  MaxLen = 3
  Epoch = 3
INVARIANT P_C14_Identical
CHECK_DEADLOCK FALSE
