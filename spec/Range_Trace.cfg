SPECIFICATION TSpec
CONSTANTS
  Units = {1}
  Owned = {1}
CONSTRAINT HW
POSTCONDITION Accepted
CHECK_DEADLOCK FALSE
