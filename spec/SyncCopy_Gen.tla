------------------------------- MODULE SyncCopy_Gen -------------------------------
EXTENDS SyncCopy, Json
CONSTANT MaxDev
VARIABLE t
GInit == t \in {x \in Dims : Deviations(x) <= MaxDev} /\ s = [n \in Names |-> [kind |-> "none"]] /\ d = s
GNext == UNCHANGED <<t, s, d>>
GSpec == GInit /\ [][GNext]_<<t, s, d>>
Emit == PrintT(<<"BEH", ToJson(t)>>)
===============================================================================
