SPECIFICATION TSpec
CONSTRAINT HW
POSTCONDITION Accepted
CHECK_DEADLOCK FALSE
