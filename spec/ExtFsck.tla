--------------------------------- MODULE ExtFsck ---------------------------------
(* C05 - every ext4 image the library produces is clean for e2fsck.               *)
(* The Create parameter space is written down as tuples (enumerated by TLC); the   *)
(* call sequences are those of ExtTree_Gen.  After Create and after EVERY call,     *)
(* accepted or refused, the image bytes are handed to the reference checker         *)
(* (e2fsck -f -n): ev.fsck is its exit status, 0 = no complaint.  At the end of a    *)
(* behaviour debugfs extracts every file; ev.dbg says whether the bytes equal what   *)
(* was written.                                                                     *)
EXTENDS Integers, Sequences, FiniteSets, TLC
ParamDims == [blk     : {"1k", "2k", "4k"},
              journal : {"j", "nj"},
              csum    : {"csum", "nocsum"},
              extra   : {"", "no64bit", "noflex", "sparse2", "bpg256", "bpg256nr", "bpg2048", "ratio4k", "inodes64", "dirindex", "nohuge", "noresize"},
              size    : {"min", "one", "multi"}]
ParamBase == [blk |-> "1k", journal |-> "j", csum |-> "nocsum", extra |-> "", size |-> "one"]
Deviations(t) == Cardinality({f \in DOMAIN ParamBase : t[f] # ParamBase[f]})
\* always enumerated, whatever the deviation bound: small groups (many group boundaries) at every block
\* size - the first data block is 1 with 1 KiB blocks and 0 otherwise, and the two interact
Always(t) == t.extra = "bpg256nr" /\ t.journal = "nj" /\ t.csum = "nocsum" /\ t.size = "one"
P_C05_Clean(ev) == ev.fsck = 0
P_C05_Debugfs(ev) == ev.a = "Debugfs" => ev.dbg
\* macro calls (Straddle) run the checker between their own steps as well: ev.fsckmid is the worst status seen
P_C05_Inside(ev) == ev.fsckmid = 0
P_C05(ev) == P_C05_Clean(ev) /\ P_C05_Debugfs(ev) /\ P_C05_Inside(ev)
===============================================================================
