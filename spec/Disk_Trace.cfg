SPECIFICATION TSpec
CONSTANTS
  Slots = {"1", "2", "3"}
  Big = {"3"}
CONSTRAINT HW
POSTCONDITION Accepted
CHECK_DEADLOCK FALSE
