SPECIFICATION LSpec
CONSTANT Paths = {"a", "b", "d/a"}
INVARIANT P_Image
PROPERTY P_Frozen
CHECK_DEADLOCK FALSE
