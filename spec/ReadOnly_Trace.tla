------------------------------- MODULE ReadOnly_Trace -------------------------------
EXTENDS ReadOnly, Json
VARIABLE l
Trace == ndJsonDeserialize("trace.ndjson")
Ev == Trace[l]
TInit == l = 1 /\ TLCSet(1, 0) /\ obj = "fat12" /\ route = "rw" /\ img = 0 /\ view = 0 /\ hist = <<>> /\ res = "ok"
TStep == /\ l <= Len(Trace)
         /\ (IF StepOK(Ev) THEN TRUE ELSE PrintT(<<"MISMATCH", l, Ev.op>>))
         /\ l' = l + 1
         /\ UNCHANGED vars
TSpec == TInit /\ [][TStep]_<<l, vars>>
HW == TLCSet(1, IF l > TLCGet(1) THEN l ELSE TLCGet(1))
Accepted == IF TLCGet(1) = Len(Trace) + 1 THEN TRUE ELSE Print(<<"REJECTED", TLCGet(1)>>, FALSE)
===============================================================================
