------------------------------ MODULE SyncCopy_Trace ------------------------------
EXTENDS SyncCopy, Json
VARIABLE l
Trace == ndJsonDeserialize("trace.ndjson")
Ev == Trace[l]
TInit == l = 1 /\ TLCSet(1, 0) /\ s = [n \in Names |-> [kind |-> "none"]] /\ d = s
TStep == /\ l <= Len(Trace)
         /\ (IF P_C16(Ev) THEN TRUE ELSE PrintT(<<"MISMATCH", l, IF P_C16_Copy(Ev) THEN "compare" ELSE "copy">>))
         /\ l' = l + 1 /\ UNCHANGED <<s, d>>
TSpec == TInit /\ [][TStep]_<<l, s, d>>
HW == TLCSet(1, IF l > TLCGet(1) THEN l ELSE TLCGet(1))
Accepted == IF TLCGet(1) = Len(Trace) + 1 THEN TRUE ELSE Print(<<"REJECTED", TLCGet(1)>>, FALSE)
===============================================================================
