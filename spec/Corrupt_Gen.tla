-------------------------------- MODULE Corrupt_Gen --------------------------------
EXTENDS Corrupt, Json
VARIABLE t
Init == t \in {x \in Dims : Applicable(x)}
Next == UNCHANGED t
Spec == Init /\ [][Next]_t
Emit == PrintT(<<"BEH", ToJson(t)>>)
===============================================================================
