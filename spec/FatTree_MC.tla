------------------------------- MODULE FatTree_MC -------------------------------
(* Exhaustive instance of FatTree: the accept and refuse branches of every     *)
(* call over a boundary alphabet, bounded file length, 6 data clusters (the    *)
(* capacity of a real 16-sector FAT12 volume).  Checks the shape invariant,    *)
(* the accounting (used clusters never exceed the volume) and, as action       *)
(* properties, that a refused call changes nothing but its own target and that *)
(* Remove/Trunc release exactly what the node held.                            *)
EXTENDS FatTree
CONSTANTS Total, MaxLen, MaxTag
VARIABLE tag
mvars == <<vars, tag>>
Offs(p) == {0, 1, 3, 4, 5} \cup {Len(tree[p].data), Len(tree[p].data) + 1}
Lens == {1, 3, 4, 5}
Fits(t2) == Used(t2) <= total
Accept(t2) == Fits(t2) /\ tree' = t2 /\ out' = "ok" /\ UNCHANGED total
\* a refused call may leave its own target in any state the type allows; here: unchanged or emptied
Refuse(touched) == /\ \E t2 \in {tree} \cup {[tree EXCEPT ![q] = None] : q \in touched \cap Files} :
                         OthersUnchanged(t2, touched) /\ tree' = t2
                   /\ out' = "err" /\ UNCHANGED total
Init == tree = [p \in Paths |-> None] /\ total = Total /\ out = "ok" /\ tag = 1
Next == /\ tag <= MaxTag
        /\ \/ \E p \in Dirs : ((CanMkdir(p) /\ Accept(MkdirT(p))) \/ Refuse({p})) /\ UNCHANGED tag
           \/ \E p \in Files : ((CanCreate(p) /\ Accept(CreateT(p))) \/ Refuse({p})) /\ UNCHANGED tag
           \/ \E p \in Files : CanWrite(p) /\ \E off \in Offs(p), len \in Lens :
                 /\ off + len <= MaxLen
                 /\ (Accept(WriteT(p, off, len, tag)) \/ Refuse({p}))
                 /\ tag' = tag + 1
           \/ \E p \in Files : CanWrite(p) /\ (Accept(TruncT(p)) \/ Refuse({p})) /\ UNCHANGED tag
           \/ \E p, q \in Files : ((CanRename(p, q) /\ Accept(RenameT(p, q))) \/ Refuse({p, q})) /\ UNCHANGED tag
           \/ \E d, e \in Dirs : d # e /\ ((CanRenameDir(d, e) /\ Accept(RenameDirT(d, e))) \/ Refuse({d, e} \cup Children(d) \cup Children(e))) /\ UNCHANGED tag
           \/ \E p \in Paths : ((CanRemove(p) /\ Accept(RemoveT(p))) \/ Refuse({p})) /\ UNCHANGED tag
           \/ \E p \in Files : IsFile(p) /\ Len(tree[p].data) + Free * CU <= MaxLen + 8 /\ \E k \in 0..(Free + 1) :
                 FillOK(p, k) /\ tree' = FillT(p, k, tag) /\ out' = "full" /\ tag' = tag + 1 /\ UNCHANGED total
Spec == Init /\ [][Next]_mvars
P_C01_Accounting == Used(tree) <= total
\* after Fill the volume is (nearly) full: less than Slack + 1 whole clusters remain
P_C01_FillFills == out = "full" => Free <= Slack
\* released space: removing or truncating a node lowers Used by exactly what the node held
P_C01_Release == [][\A p \in Paths : (Exists(p) /\ ~Exists(p)' /\ out' = "ok" /\ (\A q \in Paths \ {p} : tree'[q] = tree[q]))
                       => Used(tree') = Used(tree) - NodeClusters(tree[p])]_mvars
\* a rename (file or directory) moves content, it never creates or destroys any: the multiset of file
\* contents is the same before and after an accepted rename - stated here through the cluster count
P_C01_RenameKeeps == [][(out' = "ok" /\ \E d, e \in Dirs : d # e /\ CanRenameDir(d, e) /\ tree' = RenameDirT(d, e)) => Used(tree') <= Used(tree)]_mvars
View == <<tree, tag>>
===============================================================================
