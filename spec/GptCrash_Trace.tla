---------------------------- MODULE GptCrash_Trace ----------------------------
(* Trace validation for C09.  Every line of trace.ndjson is one power-cut      *)
(* state that was materialised on a real image (old image + the durable new    *)
(* sectors) and read with the real gpt.Read / partition.Read:                  *)
(*   [pair, pc, done, S (durable new sectors), out ("old"/"new"/"error"/       *)
(*    "mixed"), rec (RecoveredFromBackup), gout (partition.Read's verdict)]    *)
(* Property level: out must be exactly old or exactly new (error/no table      *)
(* allowed instead of old only when there was no old table), and new from the  *)
(* primary once the write completed.  Model level: the real outcome must be    *)
(* what ReadBack predicts for S; a difference there is reported as DRIFT, not  *)
(* as a violation.                                                             *)
EXTENDS GptCrash
VARIABLE l
Trace == ndJsonDeserialize("trace.ndjson")
Ev == Trace[l]
AllowedFor(p) == IF Pairs[p].oldvalid THEN {"old", "new"} ELSE {"error", "new"}
PropOK == /\ Ev.out \in AllowedFor(Ev.pair)
          /\ Ev.gout \in AllowedFor(Ev.pair) \cup (IF Pairs[Ev.pair].oldvalid THEN {} ELSE {"other"})
          /\ Ev.done => (Ev.out = "new" /\ ~Ev.rec /\ Ev.gout = "new")
ModelOK == LET m == [t |-> Ev.out, rec |-> Ev.rec]
               S == Range(Ev.S) IN
           \* ReadBack evaluated for the event's pair
           /\ pair = Ev.pair => m = ReadBack(S)
TInit == /\ l = 1 /\ pair = Trace[1].pair /\ pc = 1 /\ persisted = {} /\ cached = {} /\ crashed = FALSE /\ TLCSet(1, 0)
TStep == /\ l <= Len(Trace)
         /\ (IF PropOK THEN TRUE ELSE PrintT(<<"MISMATCH", l, Ev>>))     \* IF, not \/ : TLC explores both disjuncts
         /\ (IF ModelOK THEN TRUE ELSE PrintT(<<"DRIFT", l, Ev, ReadBack(Range(Ev.S))>>))
         /\ l' = l + 1
         /\ pair' = IF l + 1 <= Len(Trace) THEN Trace[l + 1].pair ELSE pair
         /\ UNCHANGED <<pc, persisted, cached, crashed>>
TSpec == TInit /\ [][TStep]_<<vars, l>>
HW == TLCSet(1, IF l > TLCGet(1) THEN l ELSE TLCGet(1))
Accepted == IF TLCGet(1) = Len(Trace) + 1 THEN TRUE ELSE Print(<<"REJECTED", TLCGet(1)>>, FALSE)
===============================================================================
