SPECIFICATION TSpec
CONSTANT Prop = "C14"
CONSTRAINT HW
POSTCONDITION Accepted
CHECK_DEADLOCK FALSE
