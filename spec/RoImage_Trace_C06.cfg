SPECIFICATION TSpec
CONSTANTS
  Prop = "C06"
  Paths = {"a"}
CONSTRAINT HW
POSTCONDITION Accepted
CHECK_DEADLOCK FALSE
