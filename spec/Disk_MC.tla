---------------------------------- MODULE Disk_MC ----------------------------------
(* Exhaustive check of the composition model for small constants: tags and labels   *)
(* are bounded, every action of Disk.tla is a disjunct.                             *)
EXTENDS Disk
CONSTANT MaxTag
VARIABLE tag
mvars == <<vars, tag>>
Labels == {"L1", "L2"}
MInit == Init /\ tag = 1
Bump  == tag' = tag + 1
MNext == /\ tag <= MaxTag
         /\ \/ \E k \in Kinds, S \in SUBSET Slots : Partition(k, S) /\ UNCHANGED tag
            \/ \E p \in Slots, T \in WTypes, lab \in Labels : Create(p, T, lab) /\ UNCHANGED tag
            \/ \E p \in Slots, T \in RTypes, lab \in Labels : Build(p, T, lab, tag) /\ Bump
            \/ \E p \in Slots, f \in FNames : Put(p, f, tag) /\ Bump
            \/ \E p \in Slots, f \in FNames : Del(p, f) /\ UNCHANGED tag
            \/ \E p \in Slots : WriteRaw(p, tag) /\ Bump
            \/ \E p, q \in Slots : Copy(p, q) /\ UNCHANGED tag
MSpec == MInit /\ [][MNext]_mvars
MView == vars
===============================================================================
