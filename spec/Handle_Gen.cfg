SPECIFICATION Spec
CONSTANTS
  ShortReads = FALSE
  Sizes = {0, 1, 3, 4, 5, 9}
  ReadNs = {0, 1, 3, 4, 5, 100}
  D = 2
INVARIANT Emit
CHECK_DEADLOCK FALSE
