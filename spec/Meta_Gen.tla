--------------------------------- MODULE Meta_Gen ---------------------------------
EXTENDS Meta, Json
VARIABLE t
Init == t \in {x \in Dims : Applicable(x)}
Next == UNCHANGED t
Spec == Init /\ [][Next]_t
Emit == PrintT(<<"BEH", ToJson([t |-> t, time |-> IF t.cls \in TimeClasses THEN TimeTable[t.cls] ELSE TimeTable["t1980"]])>>)
===============================================================================
