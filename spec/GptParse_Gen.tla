------------------------------ MODULE GptParse_Gen ------------------------------
EXTENDS GptParse, Json
CONSTANTS NRand, WithPairs
VARIABLE t
Init == t \in Space(NRand, WithPairs)
Next == UNCHANGED t
Spec == Init /\ [][Next]_t
Emit == PrintT(<<"BEH", ToJson(t)>>)
===============================================================================
