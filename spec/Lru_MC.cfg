SPECIFICATION Spec
CONSTANTS
  Readers = {"r1", "r2"}
  Pos = {1, 2}
  MaxInit = 1
  Ops = 2
  NBlocks = 6
  Resizes <- Resizes02
  defaultInitValue = 0
INVARIANTS P_C17_ReturnsRight P_C17_Structure P_C17_Bounded P_C17_DataRight
PROPERTY P_C17_LockDiscipline
