SPECIFICATION Spec
INVARIANTS Emit
CHECK_DEADLOCK FALSE
