SPECIFICATION Spec
CONSTANTS
  Units = {1, 2, 3, 4, 5}
  Owned = {2, 3, 4}
CONSTRAINT Bound
INVARIANT OutsideUntouched
PROPERTY Frame
CHECK_DEADLOCK FALSE
