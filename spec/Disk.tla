----------------------------------- MODULE Disk -----------------------------------
(* Composition of the components on one device (DESIGN section 8 / A.9).            *)
(*                                                                                 *)
(* One device carries a partition table and a fixed set of SLOTS (byte ranges that   *)
(* never move); a table names a subset of the slots as its partitions.  Every slot   *)
(* holds content that persists whether or not the current table names it: nothing,   *)
(* raw bytes streamed with WritePartitionContents, or a filesystem with a label and   *)
(* a few marker files.  The actions are the calls of disk.Disk and sync:              *)
(*   Partition, CreateFilesystem (+ Finalize for the build-once kinds), file          *)
(*   creation / removal through GetFilesystem, WritePartitionContents,                *)
(*   ReadPartitionContents, CopyPartitionRaw.                                         *)
(* What the composition adds to the component specifications is NON-INTERFERENCE:     *)
(* an action aimed at slot p changes the content of p only (C03); the table changes   *)
(* only through Partition and names exactly the slots written (C02/C12); what         *)
(* GetFilesystem(p) reports is the filesystem last created in p, whatever happened    *)
(* in the other slots and whatever the table was rewritten to in between (C12);       *)
(* raw contents go to and come from exactly p (C13).                                  *)
(*                                                                                 *)
(* Content abstraction: fs = [type, label, files] with files: marker name -> write    *)
(* tag (0 = absent); head / tail = tag of the pattern found in the first / last 4 KiB *)
(* of the slot (0 = never written, -1 = something else).  WILD (-2) and type "?" are  *)
(* "not determined by the model" (e.g. what the first block holds after mkfs): the    *)
(* trace specification adopts the observed value there.                               *)
EXTENDS Integers, Sequences, FiniteSets, TLC
CONSTANTS Slots,          \* e.g. {"1", "2", "3"} (strings: they are JSON keys in recorded events)
          Big             \* the slots that are larger than the others (raw copies into them are partial)
Kinds  == {"gpt", "mbr"}
WTypes == {"fat12", "fat16", "fat32", "ext4"}      \* filesystems that stay writable
RTypes == {"iso", "squashfs"}                      \* build-once filesystems (workspace + Finalize)
Types  == WTypes \cup RTypes
FNames == {"F1", "F2"}
WILD   == -2
VARIABLES tbl,            \* "none" | "gpt" | "mbr"
          parts,          \* the slots the current table names
          cont            \* [Slots -> content]
vars == <<tbl, parts, cont>>

NoFiles == [f \in FNames |-> 0]
NoFs    == [type |-> "none", label |-> "", files |-> NoFiles]
AnyFs   == [type |-> "?", label |-> "", files |-> NoFiles]
Fs(T, lab, fl) == [type |-> T, label |-> lab, files |-> fl]
C(fs, h, t) == [fs |-> fs, head |-> h, tail |-> t]
Blank == C(NoFs, 0, 0)
\* squashfs has no label; the others report the label they were given
LabelOf(T, lab) == IF T = "squashfs" THEN "" ELSE lab
SameSize(p, q) == (p \in Big) = (q \in Big)
Fits(p, q) == (q \in Big) \/ (p \notin Big)          \* slot q is at least as large as slot p

\* ---- when the model can do a call, and what it makes of the state ----
CanPartition(k, S) == k \in Kinds /\ S \subseteq Slots /\ S # {}
CanCreate(p, T)    == p \in parts /\ T \in WTypes
CanBuild(p, T)     == p \in parts /\ T \in RTypes
CanPut(p, f)       == p \in parts /\ cont[p].fs.type \in WTypes /\ f \in FNames
CanDel(p, f)       == CanPut(p, f) /\ cont[p].fs.files[f] # 0
CanWriteRaw(p)     == p \in parts
CanReadRaw(p)      == p \in parts
CanCopy(p, q)      == p \in parts /\ q \in parts /\ p # q /\ Fits(p, q)

CreateC(p, T, lab)     == [cont EXCEPT ![p] = C(Fs(T, LabelOf(T, lab), NoFiles), WILD, WILD)]
BuildC(p, T, lab, tag) == [cont EXCEPT ![p] = C(Fs(T, LabelOf(T, lab), [NoFiles EXCEPT !["F1"] = tag]), WILD, WILD)]
PutC(p, f, tag)        == [cont EXCEPT ![p].fs.files[f] = tag, ![p].head = WILD, ![p].tail = WILD]
DelC(p, f)             == [cont EXCEPT ![p].fs.files[f] = 0, ![p].head = WILD, ![p].tail = WILD]
WriteRawC(p, tag)      == [cont EXCEPT ![p] = C(NoFs, tag, tag)]
\* a raw copy into a slot of the same size is a copy; into a larger slot only the leading bytes are
\* replaced (the tail stays, and whether the filesystem is still recognised there is not promised).
\* Never-written bytes (tag 0) are a position-dependent background on the test device: copied elsewhere
\* they are just "something", and "something" (-1) copied back to where it came from may be background
\* again: both become WILD; that the copy equals the source is checked on the bytes (copysame).
Moved(t) == IF t \in {0, -1} THEN WILD ELSE t
CopyC(p, q)            == [cont EXCEPT ![q] = IF SameSize(p, q) THEN C(cont[p].fs, Moved(cont[p].head), Moved(cont[p].tail))
                                              ELSE C(IF cont[p].fs.type = "none" THEN NoFs ELSE AnyFs, Moved(cont[p].head), cont[q].tail)]

\* ---- the state machine (used by Disk_MC and Disk_Gen) ----
Init == tbl = "none" /\ parts = {} /\ cont = [p \in Slots |-> Blank]
Partition(k, S)     == CanPartition(k, S) /\ tbl' = k /\ parts' = S /\ UNCHANGED cont
Create(p, T, lab)   == CanCreate(p, T) /\ cont' = CreateC(p, T, lab) /\ UNCHANGED <<tbl, parts>>
Build(p, T, lab, g) == CanBuild(p, T) /\ cont' = BuildC(p, T, lab, g) /\ UNCHANGED <<tbl, parts>>
Put(p, f, g)        == CanPut(p, f) /\ cont' = PutC(p, f, g) /\ UNCHANGED <<tbl, parts>>
Del(p, f)           == CanDel(p, f) /\ cont' = DelC(p, f) /\ UNCHANGED <<tbl, parts>>
WriteRaw(p, g)      == CanWriteRaw(p) /\ cont' = WriteRawC(p, g) /\ UNCHANGED <<tbl, parts>>
Copy(p, q)          == CanCopy(p, q) /\ cont' = CopyC(p, q) /\ UNCHANGED <<tbl, parts>>

\* ---- properties of the model ----
TypeOK == /\ tbl \in {"none"} \cup Kinds /\ parts \subseteq Slots
          /\ \A p \in Slots : cont[p].fs.type \in Types \cup {"none", "?"}
\* a table that names no slot has never been written
P_TableNamesSlots == (tbl = "none") <=> (parts = {})
\* build-once filesystems hold exactly what they were finalized with: never an F2
P_BuildOnceFrozen == \A p \in Slots : cont[p].fs.type \in RTypes => cont[p].fs.files["F2"] = 0
\* raw content has no filesystem
P_RawHasNoFs == \A p \in Slots : (cont[p].head > 0 /\ cont[p].head = cont[p].tail) => cont[p].fs.type \in {"none", "?"}
\* NON-INTERFERENCE, as an action property: a step changes the content of at most one slot, and
\* the table and the contents never change in the same step
P_OneSlotPerStep == [][Cardinality({p \in Slots : cont'[p] # cont[p]}) <= 1]_vars
P_TableXorContent == [][(tbl' # tbl \/ parts' # parts) => cont' = cont]_vars
===============================================================================
