------------------------------- MODULE PartIO_Gen -------------------------------
EXTENDS PartIO, Json
CONSTANT MaxDev
VARIABLE t
Init == t \in {x \in Dims : Deviations(x) <= MaxDev}
Next == UNCHANGED t
Spec == Init /\ [][Next]_t
Emit == PrintT(<<"BEH", ToJson(t)>>)
===============================================================================
