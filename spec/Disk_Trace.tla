--------------------------------- MODULE Disk_Trace ---------------------------------
(* Trace validation for the composition.  trace.ndjson holds many behaviours recorded   *)
(* on real disks (memdev with a pattern background), each starting with a Reset event.   *)
(* Every event carries the call, its result class and the PROJECTION of the real disk     *)
(* after the call, taken from a freshly opened read-only Disk:                           *)
(*   obs.tbl, obs.parts (slot -> named by the table with the slot's exact byte range),    *)
(*   obs.slot[p]: type/label/files as GetFilesystem(p) reports them ("?" when the table    *)
(*   does not name p), head/tail pattern tags, dig (digest of the slot's bytes),          *)
(*   obs.boot / obs.tab / obs.gap: digests of the boot code, of the table's own sectors    *)
(*   and of every byte that belongs to neither.                                          *)
(* The expected state is computed with the operators of Disk.tla; each failing clause     *)
(* prints <<"MISMATCH", l, class, action>> (classes: result, frame, table, fs, raw), and   *)
(* the specification then ADOPTS the observed state so that later calls are judged         *)
(* relative to what is really on the disk.                                               *)
EXTENDS Disk, Json
VARIABLES l, dig, boot, tab, gap
tvars == <<vars, l, dig, boot, tab, gap>>
Trace == ndJsonDeserialize("trace.ndjson")
Ev == Trace[l]
O == Ev.obs
SetOf(seq) == {seq[i] : i \in 1..Len(seq)}
ObsParts == {p \in Slots : O.parts[p]}
ObsFs(p) == Fs(O.slot[p].type, O.slot[p].label, [f \in FNames |-> O.slot[p].files[f]])
A == Ev.a
Can == CASE A = "Partition" -> CanPartition(Ev.kind, SetOf(Ev.S))
         [] A = "Create"    -> CanCreate(Ev.p, Ev.T)
         [] A = "Build"     -> CanBuild(Ev.p, Ev.T)
         [] A = "Put"       -> CanPut(Ev.p, Ev.f)
         [] A = "Del"       -> CanDel(Ev.p, Ev.f)
         [] A = "WriteRaw"  -> CanWriteRaw(Ev.p)
         [] A = "ReadRaw"   -> CanReadRaw(Ev.p)
         [] A = "Copy"      -> CanCopy(Ev.p, Ev.q)
Ok == Ev.res = "ok"
\* the slot a call is aimed at (the only one whose bytes may change)
Target == CASE A \in {"Partition", "ReadRaw"} -> {}
            [] A = "Copy" -> {Ev.q}
            [] OTHER -> {Ev.p}
\* the slots the call can reach at all: its target, provided the table names it (a call aimed at a slot
\* the table does not name has no partition to work on)
Reach == IF Target \subseteq parts THEN Target ELSE {}
Undefined(p) == C(AnyFs, WILD, WILD)
ExpCont == IF Ok /\ Can
             THEN CASE A = "Create"   -> CreateC(Ev.p, Ev.T, Ev.label)
                    [] A = "Build"    -> BuildC(Ev.p, Ev.T, Ev.label, Ev.tag)
                    [] A = "Put"      -> PutC(Ev.p, Ev.f, Ev.tag)
                    [] A = "Del"      -> DelC(Ev.p, Ev.f)
                    [] A = "WriteRaw" -> WriteRawC(Ev.p, Ev.tag)
                    [] A = "Copy"     -> CopyC(Ev.p, Ev.q)
                    [] OTHER          -> cont
             \* a refused call leaves the slot it could reach undefined (e.g. a raw copy that turns out not to
             \* fit has already streamed the leading bytes) and everything else as it was
             ELSE [p \in Slots |-> IF p \in Reach THEN Undefined(p) ELSE cont[p]]
ExpTbl   == IF A = "Partition" /\ Ok /\ Can THEN Ev.kind ELSE tbl
ExpParts == IF A = "Partition" /\ Ok /\ Can THEN SetOf(Ev.S) ELSE parts

MatchFs(e, p)  == e.fs.type = "?" \/ e.fs = ObsFs(p)
MatchRaw(e, p) == (e.head = WILD \/ e.head = O.slot[p].head) /\ (e.tail = WILD \/ e.tail = O.slot[p].tail)

\* a call the model can do ends in a result or an error; one it cannot do must not report success (how it
\* fails - an error, or a panic on a zero-sized MBR slot - is outside the listed properties: counted, not judged)
ResultOK == IF Can THEN Ev.res \in {"ok", "err"} ELSE ~Ok
FrameOK  == /\ \A q \in Slots \ Reach : O.slot[q].dig = dig[q]
            /\ O.boot = boot /\ O.gap = gap
            /\ (A # "Partition" \/ ~Can => O.tab = tab)
TableOK  == O.tbl = ExpTbl /\ ObsParts = ExpParts
FsOK     == \A q \in ObsParts : MatchFs(ExpCont[q], q)
RawOK    == /\ \A q \in Slots : MatchRaw(ExpCont[q], q)
            /\ (A = "ReadRaw" /\ Ok => Ev.rdsame)
            /\ (A = "Copy" /\ Ok /\ Can => Ev.copysame)
Say(ok, class) == IF ok THEN TRUE ELSE PrintT(<<"MISMATCH", l, class, A>>)
Judge == Say(ResultOK, "result") /\ Say(FrameOK, "frame") /\ Say(TableOK, "table") /\ Say(FsOK, "fs") /\ Say(RawOK, "raw")

Adopt == /\ tbl' = O.tbl /\ parts' = ObsParts
         /\ cont' = [p \in Slots |-> C(IF p \in ObsParts THEN ObsFs(p) ELSE ExpCont[p].fs, O.slot[p].head, O.slot[p].tail)]
         /\ dig' = [p \in Slots |-> O.slot[p].dig] /\ boot' = O.boot /\ tab' = O.tab /\ gap' = O.gap
InRange == l <= Len(Trace)
Step  == InRange /\ A # "Reset" /\ Judge /\ Adopt /\ l' = l + 1
\* a fresh device: no table, every slot blank
Reset == /\ InRange /\ A = "Reset"
         /\ Say(O.tbl = "none" /\ ObsParts = {} /\ \A p \in Slots : O.slot[p].head = 0 /\ O.slot[p].tail = 0, "reset")
         /\ tbl' = "none" /\ parts' = {} /\ cont' = [p \in Slots |-> Blank]
         /\ dig' = [p \in Slots |-> O.slot[p].dig] /\ boot' = O.boot /\ tab' = O.tab /\ gap' = O.gap
         /\ l' = l + 1
TInit == /\ l = 1 /\ tbl = "none" /\ parts = {} /\ cont = [p \in Slots |-> Blank]
         /\ dig = [p \in Slots |-> ""] /\ boot = "" /\ tab = "" /\ gap = "" /\ TLCSet(1, 0)
TNext == Step \/ Reset
TSpec == TInit /\ [][TNext]_tvars
HW == TLCSet(1, IF l > TLCGet(1) THEN l ELSE TLCGet(1))
Accepted == IF TLCGet(1) = Len(Trace) + 1 THEN TRUE ELSE Print(<<"REJECTED", TLCGet(1)>>, FALSE)
===============================================================================
