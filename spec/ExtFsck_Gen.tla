------------------------------- MODULE ExtFsck_Gen -------------------------------
EXTENDS ExtFsck, Json
CONSTANT MaxDev
VARIABLE t
Init == t \in {x \in ParamDims : Deviations(x) <= MaxDev \/ Always(x)}
Next == UNCHANGED t
Spec == Init /\ [][Next]_t
Emit == PrintT(<<"BEH", ToJson(t)>>)
===============================================================================
