SPECIFICATION TSpec
CONSTANTS
  CU = 4
  Files = {"A", "b", "L1", "L2", "D/A", "D/b", "E/A", "E/b"}
  Dirs = {"D", "E"}
  InD = {"D/A", "D/b"}
  InE = {"E/A", "E/b"}
CONSTRAINT HW
INVARIANTS TypeOK P_C01_Shape
POSTCONDITION Accepted
CHECK_DEADLOCK FALSE
