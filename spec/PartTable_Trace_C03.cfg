SPECIFICATION TSpec
CONSTANT Prop = "C03"
CONSTRAINT HW
POSTCONDITION Accepted
CHECK_DEADLOCK FALSE
