SPECIFICATION Spec
INVARIANTS TypeOK P_C09_Atomic P_C09_Done
CHECK_DEADLOCK FALSE
