------------------------------ MODULE Handle_MC ------------------------------
(* Exhaustive instance of Handle: sizes and call alphabet in model units       *)
(* (cluster/block = 4 units; see DESIGN 3.1 for the unit -> byte map).          *)
EXTENDS Handle
CONSTANTS Sizes, ReadNs, MaxPos
SeekOffs == {-5, -1, 0, 1, 4, 10}   \* (a cfg file cannot hold negative numbers)
Whences == {"start", "cur", "end"}
Init == /\ size \in Sizes /\ pos = 0 /\ closed = FALSE /\ out = NoOut
Next == \/ \E n \in ReadNs : Read(n) \/ ClosedRead(n)
        \/ \E w \in Whences, o \in SeekOffs : Seek(w, o)
        \/ Close
Spec == Init /\ [][Next]_vars
Bound == pos <= MaxPos
TypeOK == /\ size \in Sizes /\ pos \in 0..(MaxPos + 100) /\ closed \in BOOLEAN
\* cursor monotonicity of Read as an action property
ReadAdvances == [][(out'.kind = "read" /\ ~out'.err) => pos' = pos + out'.k]_vars
View == <<size, pos, closed>>
===============================================================================
