SPECIFICATION Spec
CONSTANTS
  NC = 4
  CU = 2
  MaxLen = 5
  MaxTag = 3
  Files = {"A", "D/A"}
  Dirs = {"D"}
  InD = {"D/A"}
INVARIANTS Sound Accounting
PROPERTY Refines
CHECK_DEADLOCK FALSE
