------------------------------ MODULE PartIO_Trace ------------------------------
EXTENDS PartIO, Json
VARIABLE l
Trace == ndJsonDeserialize("trace.ndjson")
Ev == Trace[l]
TInit == l = 1 /\ TLCSet(1, 0)
Which == IF ~P_C13_Write(Ev) THEN "write" ELSE IF ~P_C13_Read(Ev) THEN "read" ELSE "copy"
TStep == /\ l <= Len(Trace)
         /\ (IF P_C13(Ev) THEN TRUE ELSE PrintT(<<"MISMATCH", l, Which, Ev.shape>>))
         /\ l' = l + 1
TSpec == TInit /\ [][TStep]_l
HW == TLCSet(1, IF l > TLCGet(1) THEN l ELSE TLCGet(1))
Accepted == IF TLCGet(1) = Len(Trace) + 1 THEN TRUE ELSE Print(<<"REJECTED", TLCGet(1)>>, FALSE)
===============================================================================
