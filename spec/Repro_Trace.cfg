SPECIFICATION TSpec
CONSTANTS
  Ops = {"create"}
  Leaky = {}
  MaxClock = 1
  MaxLen = 1
  Epoch = 0
CONSTRAINT HW
POSTCONDITION Accepted
CHECK_DEADLOCK FALSE
