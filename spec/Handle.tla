-------------------------------- MODULE Handle --------------------------------
(* C10 - the Read/Seek/Close contract of a file handle (io.Reader + io.Seeker), *)
(* as the statement gives it: Read returns exactly the bytes at the cursor,     *)
(* never more than remain, reports EOF exactly when the end is reached, Seek    *)
(* positions the cursor where io.Seeker says, reads after Close fail.           *)
(* Content is not modelled as bytes: a handle is correct iff every Read         *)
(* delivers content[pos .. pos+k), so the state is (size, pos, closed) and the  *)
(* data clause is the logged fact "src = pos" (the offset the delivered bytes   *)
(* were found at in the known content).                                         *)
EXTENDS Integers, Sequences, TLC
CONSTANTS ShortReads      \* TRUE: any 1..min(n,rem) may be delivered (io.Reader latitude)
VARIABLES size, pos, closed, out
vars == <<size, pos, closed, out>>

Min(a, b) == IF a < b THEN a ELSE b
Rem == IF size > pos THEN size - pos ELSE 0
NoOut == [kind |-> "none", n |-> 0, k |-> 0, eof |-> FALSE, err |-> FALSE, rem |-> 0]

\* the set of byte counts Read(n) may deliver
Deliver(n) == LET top == Min(n, Rem) IN
              IF top = 0 THEN {0} ELSE IF ShortReads THEN 1..top ELSE {top}

ReadRes(n, k, e) ==
    /\ ~closed
    /\ k \in Deliver(n)
    /\ (k = 0 /\ n > 0) => e            \* at the end, with nothing delivered, EOF is required
    /\ (n = 0 /\ Rem > 0) => ~e         \* a zero-length read in the middle is not EOF
    /\ e => pos + k >= size             \* EOF only when the end is reached
    /\ pos' = pos + k
    /\ out' = [kind |-> "read", n |-> n, k |-> k, eof |-> e, err |-> FALSE, rem |-> Rem]
    /\ UNCHANGED <<size, closed>>

Read(n) == \E k \in 0..n, e \in BOOLEAN : ReadRes(n, k, e)

Target(w, o) == CASE w = "start" -> o [] w = "cur" -> pos + o [] w = "end" -> size + o

Seek(w, o) ==
    /\ ~closed
    /\ LET t == Target(w, o) IN
       IF t < 0 THEN /\ pos' = pos
                     /\ out' = [kind |-> "seek", n |-> 0, k |-> pos, eof |-> FALSE, err |-> TRUE, rem |-> Rem]
                ELSE /\ pos' = t
                     /\ out' = [kind |-> "seek", n |-> 0, k |-> t, eof |-> FALSE, err |-> FALSE, rem |-> Rem]
    /\ UNCHANGED <<size, closed>>

Close == /\ ~closed /\ closed' = TRUE
         /\ out' = [NoOut EXCEPT !.kind = "close"] /\ UNCHANGED <<size, pos>>

\* any Read on a closed handle fails and delivers nothing
ClosedRead(n) == /\ closed
                 /\ out' = [kind |-> "read", n |-> n, k |-> 0, eof |-> FALSE, err |-> TRUE, rem |-> Rem]
                 /\ UNCHANGED <<size, pos, closed>>

\* ---- properties (consequences of the contract; checked by TLC on the MC instance) ----
P_C10_NoOverread == out.kind = "read" => out.k <= out.rem /\ out.k <= out.n
P_C10_Progress   == (out.kind = "read" /\ ~out.err /\ out.n > 0 /\ out.rem > 0) => out.k > 0
P_C10_EOFExact   == (out.kind = "read" /\ out.eof) => pos >= size
P_C10_EOFAtEnd   == (out.kind = "read" /\ ~out.err /\ out.n > 0 /\ out.rem = 0) => out.eof
P_C10_ClosedFail == (out.kind = "read" /\ closed) => out.err /\ out.k = 0
P_C10_SeekPos    == (out.kind = "seek" /\ ~out.err) => pos = out.k
===============================================================================
