SPECIFICATION Spec
CONSTRAINT Bound
PROPERTIES ROFrozen ReadsPure RORefuses
CHECK_DEADLOCK FALSE
