------------------------------ MODULE ExtTree_Trace ------------------------------
(* Trace validation for C04 and C19 (ext4 part).  Events: the call, its result      *)
(* class, and the projection of the volume after it - api / api2 (tree through the   *)
(* live object / after re-opening from bytes: kinds, content tags per unit, link      *)
(* targets), attrs / attrs2 (mode, uid, gid, mt, at per existing path), same (re-read *)
(* through the writing handle), extra (unexpected entries, read errors).              *)
EXTENDS ExtTree, Json
VARIABLES l, skip
tvars == <<vars, l, skip>>
Trace == ndJsonDeserialize("trace.ndjson")
Ev == Trace[l]
AsTree(j) == [p \in Paths |-> j[p]]
Api  == AsTree(Ev.api)
Api2 == AsTree(Ev.api2)
At   == AsTree(Ev.attrs)
At2  == AsTree(Ev.attrs2)
NodeOK(n, p) == n.kind \in (IF p \in Dirs THEN {"none", "dir"} ELSE IF p \in Links THEN {"none", "link"} ELSE {"none", "file"})
Clean == Ev.extra = <<>>
\* attributes of paths other than the touched ones never change; the touched path's
\* attributes may change only in the fields the call is allowed to change
AttrFrame(touched, fields) ==
    /\ At = At2
    /\ \A q \in Paths \ touched : (Exists(q) /\ Api[q].kind # "none") => At[q] = attr[q]
    /\ \A q \in touched \cap Paths : (Exists(q) /\ Api[q].kind # "none") => SameExcept(At[q], attr[q], fields)
Accept(can, t2, touched, fields) ==
    /\ Ev.res = "ok" /\ can /\ Clean
    /\ Api = t2 /\ Api2 = t2
    /\ AttrFrame(touched, fields)
    /\ tree' = t2 /\ attr' = At /\ out' = "ok"
Refuse(touched) ==
    /\ Ev.res = "err" /\ Clean
    /\ Api = Api2 /\ OthersUnchanged(Api, touched)
    /\ \A p \in touched : NodeOK(Api[p], p)
    /\ AttrFrame(touched, {"mode", "uid", "gid", "mt", "at"})
    /\ tree' = Api /\ attr' = At /\ out' = "err"
SameHandleOK(p) == Ev.res = "ok" => Ev.same = tree'[p].data
Times == {"mt", "at"}
TMkdir   == Ev.a = "Mkdir"   /\ (Accept(CanMkdir(Ev.p), MkdirT(Ev.p), {Ev.p, Parent[Ev.p]}, Times) \/ Refuse({Ev.p}))
TCreate  == Ev.a = "Create"  /\ (Accept(CanCreate(Ev.p), CreateT(Ev.p), {Ev.p, Parent[Ev.p]}, Times) \/ Refuse({Ev.p}))
TWrite   == Ev.a = "WriteAt" /\ (Accept(CanWrite(Ev.p), IF CanWrite(Ev.p) THEN WriteT(Ev.p, Ev.off, Ev.len, Ev.tag) ELSE tree, {Ev.p}, Times) \/ Refuse({Ev.p})) /\ SameHandleOK(Ev.p)
TAppend  == Ev.a = "Append"  /\ (Accept(CanWrite(Ev.p), IF CanWrite(Ev.p) THEN AppendT(Ev.p, Ev.len, Ev.tag) ELSE tree, {Ev.p}, Times) \/ Refuse({Ev.p})) /\ SameHandleOK(Ev.p)
TSymlink == Ev.a = "Symlink" /\ (Accept(CanSymlink(Ev.p), SymlinkT(Ev.p, Ev.t), {Ev.p, Parent[Ev.p]}, Times) \/ Refuse({Ev.p}))
TRemove  == Ev.a = "Remove"  /\ (Accept(CanRemove(Ev.p), RemoveT(Ev.p), {Ev.p, Parent[Ev.p]}, Times) \/ Refuse({Ev.p}))
\* attribute setters: the tree is unchanged, exactly the named attribute takes the given value
TChmod   == Ev.a = "Chmod"   /\ ((Accept(CanAttr(Ev.p), tree, {Ev.p}, {"mode"}) /\ At[Ev.p].mode = Ev.v) \/ Refuse({Ev.p}))
TChown   == Ev.a = "Chown"   /\ ((Accept(CanAttr(Ev.p), tree, {Ev.p}, {"uid", "gid"}) /\ At[Ev.p].uid = Ev.v /\ At[Ev.p].gid = Ev.w) \/ Refuse({Ev.p}))
TChtimes == Ev.a = "Chtimes" /\ ((Accept(CanAttr(Ev.p), tree, {Ev.p}, {"mt", "at"}) /\ At[Ev.p].mt = Ev.v /\ At[Ev.p].at = Ev.w) \/ Refuse({Ev.p}))
\* Hold: a read-write handle on an existing file is opened and kept across the following calls; nothing changes
THold == /\ Ev.a = "Hold" /\ Ev.res \in {"ok", "err"} /\ (Ev.res = "ok" => IsFile(Ev.p)) /\ Clean /\ Api = tree /\ Api2 = tree
         /\ AttrFrame({Ev.p}, {"at"}) /\ attr' = At /\ UNCHANGED <<tree, out>>
\* Truncate is not among the calls C04 lists: here it is held to the FRAME only (every other path and
\* attribute unchanged, live view = re-opened view, the target stays a file); what the target holds is adopted
\* from the observation, and a difference from the plain tree's answer is printed as DRIFT (not a violation)
TTruncate == /\ Ev.a = "Truncate" /\ Ev.res \in {"ok", "err"} /\ Clean
             /\ Api = Api2 /\ OthersUnchanged(Api, {Ev.p}) /\ NodeOK(Api[Ev.p], Ev.p)
             /\ AttrFrame({Ev.p}, Times)
             /\ (~CanWrite(Ev.p) => Api = tree)          \* aimed at a symlink / directory / nothing: no change at all
             /\ (IF Ev.res = "ok" /\ CanWrite(Ev.p) /\ Api # TruncateT(Ev.p, Ev.off)
                   THEN PrintT(<<"DRIFT", l, "Truncate", Ev.p, Ev.off>>) ELSE TRUE)
             /\ tree' = Api /\ attr' = At /\ out' = Ev.res
\* macro calls whose net effect on the universe is nil: Churn creates k temporary entries in a
\* directory (growing it past one block) and removes them again; Straddle does so in a fresh directory
\* after using up the free blocks below a block-group boundary (the directory grows across it); GroupEdge
\* places files at the first blocks of two neighbouring groups, removes one and checks the other; ManyExtents
\* grows a temporary file to hundreds of unmergeable extents and reads it back; Full fills the volume until a
\* write is refused, makes calls that need a block or an inode, and empties it again; BigFile writes a multi-block
\* file outside the universe in pieces, reads it back live and after re-opening (bigok), removes it
TChurn   == Ev.a \in {"Churn", "Churn2", "Straddle", "GroupEdge", "ManyExtents", "Full"} /\ Ev.res = "ok" /\ Clean /\ Api = tree /\ Api2 = tree /\ AttrFrame({Ev.p}, Times) /\ attr' = At /\ UNCHANGED <<tree, out>>
TBigFile == Ev.a = "BigFile" /\ Ev.res = "ok" /\ Clean /\ Ev.bigok /\ Api = tree /\ Api2 = tree /\ AttrFrame({}, {}) /\ UNCHANGED vars
Match == Ev.panic = "" /\ (TChurn \/ TBigFile \/ TTruncate \/ THold \/ TMkdir \/ TCreate \/ TWrite \/ TAppend \/ TSymlink \/ TRemove \/ TChmod \/ TChown \/ TChtimes)
InRange  == l <= Len(Trace)
Step     == InRange /\ ~skip /\ Ev.a # "Reset" /\ Match /\ l' = l + 1 /\ UNCHANGED skip
Mismatch == /\ InRange /\ ~skip /\ Ev.a # "Reset" /\ ~ENABLED Match
            /\ PrintT(<<"MISMATCH", l, Ev.a, Ev.res>>)
            /\ skip' = TRUE /\ l' = l + 1 /\ UNCHANGED vars
SkipStep == InRange /\ skip /\ Ev.a # "Reset" /\ l' = l + 1 /\ UNCHANGED <<vars, skip>>
Reset    == /\ InRange /\ Ev.a = "Reset"
            /\ tree' = [p \in Paths |-> None] /\ attr' = [p \in Paths |-> NoAttr] /\ out' = "ok"
            /\ skip' = ~(Api = [p \in Paths |-> None] /\ Api2 = Api /\ Clean)
            /\ (IF skip' THEN PrintT(<<"MISMATCH", l, "Reset", "notempty">>) ELSE TRUE)
            /\ l' = l + 1
TInit == /\ l = 1 /\ skip = TRUE /\ tree = [p \in Paths |-> None] /\ attr = [p \in Paths |-> NoAttr] /\ out = "ok" /\ TLCSet(1, 0)
TNext == Step \/ Mismatch \/ SkipStep \/ Reset
TSpec == TInit /\ [][TNext]_tvars
HW == TLCSet(1, IF l > TLCGet(1) THEN l ELSE TLCGet(1))
Accepted == IF TLCGet(1) = Len(Trace) + 1 THEN TRUE ELSE Print(<<"REJECTED", TLCGet(1)>>, FALSE)
===============================================================================
