SPECIFICATION TSpec
CONSTANT Bases = {"x"}
CONSTRAINT HW
POSTCONDITION Accepted
CHECK_DEADLOCK FALSE
