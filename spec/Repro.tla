---------------------------------- MODULE Repro ----------------------------------
(* C14 - reproducible mode yields byte-identical images.                        *)
(*                                                                             *)
(* A 2-safety property, modelled as a self-composition: runs A and B execute    *)
(* the same operation sequence in lock-step on volumes that may sit at          *)
(* different offsets of different devices, in different processes, while each   *)
(* run's wall clock advances arbitrarily.  An image is abstracted to the        *)
(* sequence of stamped records the operations leave behind.  In reproducible    *)
(* mode every stamp is a function of SOURCE_DATE_EPOCH (and of the operation)   *)
(* alone, hence image_A = image_B after every step.  Leaky names operations     *)
(* that (wrongly) read the wall clock; with Leaky = {} the invariant holds for  *)
(* all clock schedules, with any leak TLC finds the diverging schedule - that   *)
(* is the shape of defect the trace validation looks for in the real library.   *)
EXTENDS Integers, Sequences, TLC
CONSTANTS Ops, Leaky, MaxClock, MaxLen, Epoch
VARIABLES clockA, clockB, imgA, imgB
vars == <<clockA, clockB, imgA, imgB>>
Stamp(op, clock) == IF op \in Leaky THEN [op |-> op, t |-> clock \div 2] ELSE [op |-> op, t |-> Epoch \div 2]   \* FAT: 2 s resolution
Init == clockA \in 0..MaxClock /\ clockB \in 0..MaxClock /\ imgA = <<>> /\ imgB = <<>>
Do(op) == /\ Len(imgA) < MaxLen
          /\ imgA' = Append(imgA, Stamp(op, clockA)) /\ imgB' = Append(imgB, Stamp(op, clockB))
          /\ UNCHANGED <<clockA, clockB>>
TickA == clockA < MaxClock /\ clockA' = clockA + 1 /\ UNCHANGED <<clockB, imgA, imgB>>
TickB == clockB < MaxClock /\ clockB' = clockB + 1 /\ UNCHANGED <<clockA, imgA, imgB>>
Next == (\E op \in Ops : Do(op)) \/ TickA \/ TickB
Spec == Init /\ [][Next]_vars
P_C14_Identical == imgA = imgB

\* ---- predicate over one recorded pair of executions (used by Repro_Trace) ----
\* ev.shaA / ev.shaB: digest of the volume's byte range after the same call in run A / run B
\* ev.resA / ev.resB: result class of the call
P_C14(ev) == ev.shaA = ev.shaB /\ ev.resA = ev.resB
===============================================================================
