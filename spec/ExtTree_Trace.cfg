SPECIFICATION TSpec
CONSTANTS
  CU = 4
  Files = {"a", "b", "d/a"}
  Dirs = {"d"}
  Links = {"l", "d/l"}
  InD = {"d/a", "d/l"}
CONSTRAINT HW
INVARIANTS TypeOK P_C04_Shape
POSTCONDITION Accepted
CHECK_DEADLOCK FALSE
