-------------------------------- MODULE FatDisk --------------------------------
(* C08 - FAT volumes stay structurally sound on disk.                          *)
(*                                                                             *)
(* The soundness conditions of the statement are written once, as predicates   *)
(* over a VIEW of the on-disk structures:                                      *)
(*   v.ncl        number of data clusters (valid cluster numbers 2..ncl+1)     *)
(*   v.cb         cluster size in bytes                                        *)
(*   v.ents       sequence of [path, dir, first, size, chain, clen, bad] - one  *)
(*                per directory entry; chain = the clusters reached from first *)
(*                (as a set, encoded as merged ranges <<lo, hi>>), clen = its   *)
(*                length, bad = "" or why following the FAT failed             *)
(*                (range/free/cycle/...)                                       *)
(*   v.rootchain  chain of the root directory (FAT32), <<>> for FAT12/16       *)
(*   v.used       clusters in 2..ncl+1 whose FAT entry is not free (ranges)    *)
(*   v.beyond     FAT entries past ncl+1 that are not free                     *)
(*   v.bootok, fitsrange, backupeq, fsinfook, fsinfofreeok, kindok, fatseq     *)
(* FatDisk_MC builds the view from a cluster-level model of the library's      *)
(* operations; FatDisk_Trace takes it from the independent raw parser after    *)
(* every call made to a real volume.                                           *)
EXTENDS Integers, Sequences, FiniteSets, TLC
Range(s) == {s[i] : i \in 1..Len(s)}
RSet(rs) == UNION {rs[i][1]..rs[i][2] : i \in 1..Len(rs)}     \* the set a list of ranges stands for
Ents(v) == {v.ents[i] : i \in 1..Len(v.ents)}

\* boot sector geometry matches the range given; FAT32: identical backup boot sector, sane FSInfo
P_C08_Boot(v)    == v.bootok /\ v.fitsrange /\ v.kindok /\ v.backupeq /\ v.fsinfook /\ v.fsinfofreeok
\* two identical FAT copies
P_C08_Copies(v)  == v.fatseq
\* every entry's chain: in-range clusters, ends in an end-of-chain mark, long enough for the size
P_C08_Chains(v)  == /\ v.rootbad = ""
                    /\ \A i \in 1..Len(v.ents) : LET e == v.ents[i] IN
                         /\ e.bad = ""
                         /\ \A k \in 1..Len(e.chain) : e.chain[k][1] >= 2 /\ e.chain[k][2] <= v.ncl + 1
                         /\ Cardinality(RSet(e.chain)) = e.clen          \* no cluster twice in one chain
                         /\ (e.dir => e.clen >= 1)
                         /\ (~e.dir => e.clen * v.cb >= e.size)
\* no cluster in two chains
P_C08_NoCross(v) == /\ \A i, j \in 1..Len(v.ents) : i < j => RSet(v.ents[i].chain) \cap RSet(v.ents[j].chain) = {}
                    /\ \A i \in 1..Len(v.ents) : RSet(v.ents[i].chain) \cap RSet(v.rootchain) = {}
\* no cluster marked used that no file or directory owns
P_C08_NoLeak(v)  == RSet(v.used) = UNION {RSet(e.chain) : e \in Ents(v)} \cup RSet(v.rootchain)
\* nothing is marked beyond the data area
P_C08_InRange(v) == v.beyond = <<>>
P_C08(v) == P_C08_Boot(v) /\ P_C08_Copies(v) /\ P_C08_Chains(v) /\ P_C08_NoCross(v) /\ P_C08_NoLeak(v) /\ P_C08_InRange(v)
\* which clause fails first (diagnostic)
Failing(v) == IF ~P_C08_Boot(v) THEN "boot" ELSE IF ~P_C08_Copies(v) THEN "copies" ELSE IF ~P_C08_Chains(v) THEN "chains"
              ELSE IF ~P_C08_NoCross(v) THEN "crosslink" ELSE IF ~P_C08_NoLeak(v) THEN "leak" ELSE IF ~P_C08_InRange(v) THEN "beyond" ELSE "none"
===============================================================================
