------------------------------- MODULE RoImage_Gen -------------------------------
EXTENDS RoImage, Json
CONSTANTS Kind, MaxDev
VARIABLE t
Space == IF Kind = "iso" THEN {x \in IsoSpace : Dev(x.t, TreeBase) + Dev(x.o, IsoBase) <= MaxDev}
                         ELSE {x \in SqSpace : Dev(x.t, TreeBase) + Dev(x.o, SqBase) <= MaxDev}
Init == t \in Space /\ phase = "workspace" /\ wtree = {} /\ itree = {} /\ out = "ok"
Next == UNCHANGED <<t, lvars>>
Spec == Init /\ [][Next]_<<t, lvars>>
Emit == PrintT(<<"BEH", ToJson(t)>>)
===============================================================================
