---------------------------------- MODULE Corrupt ----------------------------------
(* C18 - opening and walking a damaged filesystem image cannot crash.               *)
(*                                                                                 *)
(* Fault model: ONE on-disk field of a valid base image is overwritten.  A field is  *)
(* any aligned word of width 1, 2 or 4 bytes that the reader consumes while opening   *)
(* the clean image, listing every directory, stat-ing every entry, resolving every    *)
(* link and reading every file (the harness records the device reads of that clean    *)
(* walk; FAT entries, which are not byte aligned on FAT12, are a width class of their *)
(* own).  The new value is one of the boundary classes below.  The space             *)
(* base x width x class is enumerated by TLC; for each tuple the harness applies the  *)
(* class at EVERY consumed position of that width (enumerated, not sampled).          *)
EXTENDS Integers, Sequences, FiniteSets, TLC
CONSTANTS Bases
Widths  == {"1", "2", "4", "fat"}
\* zero, one, four and eight (the smallest record / header lengths), all ones, only the top bit, top bit clear, original +1 / -1 / doubled, one bit
\* flipped (low / high), the number of the 512-byte sector / the block holding the field
\* itself (a structure pointing at itself), the image size in bytes / in blocks (first
\* position past the end); for FAT entries: free, reserved 1, itself, the head of its own
\* chain, its predecessor, the first cluster past the end, the number of entries of one FAT copy (also
\* as a value of any 2/4-byte field of a FAT image: "fattablen"), end-of-chain, bad-cluster mark
Classes == {"zero", "one", "four", "eight", "ones", "msb", "max", "inc", "dec", "dbl", "flip0", "flip7",
            "selfsec", "selfblk", "imgbytes", "imgblks", "fattablen",
            "f-free", "f-one", "f-self", "f-head", "f-prev", "f-past", "f-tablen", "f-eoc", "f-bad"}
FatClasses == {c \in Classes : c \in {"f-free", "f-one", "f-self", "f-head", "f-prev", "f-past", "f-tablen", "f-eoc", "f-bad"}}
Dims == [base : Bases, w : Widths, cls : Classes]
IsFat(b) == b \in {"fat12", "fat16", "fat32"}
Applicable(t) ==
    IF t.w = "fat" THEN IsFat(t.base) /\ t.cls \in FatClasses
    ELSE /\ t.cls \notin FatClasses
         /\ (t.cls \in {"selfsec", "selfblk", "imgblks"} => t.w \in {"2", "4"})
         /\ (t.cls = "imgbytes" => t.w = "4")
         /\ (t.cls = "fattablen" => IsFat(t.base) /\ t.w \in {"2", "4"})

\* ---- one recorded event = one tuple applied at all positions ----
\* ev.n positions tried; ev.outcomes: the set (as a sequence) of distinct outcomes seen, each
\*   "ok" (opened, walk completed with data or errors), "error" (open refused), or one of
\*   "panic" / "hang" / "oom" / "crash"; ev.worst_ms; ev.image_mb; ev.worst_alloc_mb = the largest,
\*   over the cases, of max(growth of the memory obtained from the OS during the case,
\*   cumulative allocation less 4 x image size per directory entry visited) - every open of an
\*   entry legitimately re-reads directories and the allocation table
MaxMs == 4000        \* CPU milliseconds of the process executing the case
AllocBound(mb) == 64 + 16 * mb
Good == {"ok", "error"}
P_C18(ev) == /\ ev.n > 0
             /\ \A i \in 1..Len(ev.outcomes) : ev.outcomes[i] \in Good
             /\ ev.worst_ms <= MaxMs
             /\ ev.worst_alloc_mb <= AllocBound(ev.image_mb)
===============================================================================
