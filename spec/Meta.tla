----------------------------------- MODULE Meta -----------------------------------
(* C19 - file metadata survives being written into an image.                       *)
(*                                                                                 *)
(* Every node of a small tree carries an attribute record (mode, uid, gid, mtime,    *)
(* atime, ctime, link target, FAT flags ro/hidden/system/archive) as opaque tokens.   *)
(* An operation is a list of assignments (path, attribute, value); the format's       *)
(* representation function Repr says what is stored for a value (identity for ext4,   *)
(* squashfs, Rock Ridge within their ranges; FAT keeps modification and creation      *)
(* time in 2 s steps and the access time as a date).  The property is a frame         *)
(* statement: after the operation and after RE-OPENING the image, every (path,        *)
(* attribute) pair reads back as Repr of what was assigned to it, and every other     *)
(* pair exactly as before - changing one attribute of one file changes nothing else - *)
(* and kinds (file / dir / link) never change.                                        *)
EXTENDS Integers, Sequences, FiniteSets, TLC
\* value classes: input token and the token each format must report back ("-" = class not
\* applicable to the format, the tuple is not generated)
Modes == {"0644", "0755", "4711", "2070", "1777", "0000", "7777", "0421"}
Ids   == {"0", "1000", "65535", "65536", "4294967294"}
TimeTable == [t1970 |-> [v |-> "1",          ext4 |-> "1",          sq |-> "1",          iso |-> "1",          fatm |-> "-",          fata |-> "-"],
              t1980 |-> [v |-> "315532800",  ext4 |-> "315532800",  sq |-> "315532800",  iso |-> "315532800",  fatm |-> "315532800",  fata |-> "315532800"],
              todd  |-> [v |-> "1700000001", ext4 |-> "1700000001", sq |-> "1700000001", iso |-> "1700000001", fatm |-> "1700000000", fata |-> "1699920000"],
              t2038 |-> [v |-> "2147483648", ext4 |-> "2147483648", sq |-> "2147483648", iso |-> "2147483648", fatm |-> "2147483648", fata |-> "2147472000"],
              t2100 |-> [v |-> "4102444799", ext4 |-> "4102444799", sq |-> "4102444799", iso |-> "4102444799", fatm |-> "4102444798", fata |-> "4102358400"],
              t2107 |-> [v |-> "4354819198", ext4 |-> "4354819198", sq |-> "-",          iso |-> "-",          fatm |-> "4354819198", fata |-> "4354732800"]]
TimeClasses == DOMAIN TimeTable
Dims == [fmt : {"ext4", "fat12", "fat16", "fat32", "squashfs", "iso"},
         op  : {"chmod", "chown", "chtimes", "flags", "finalize"},
         cls : Modes \cup Ids \cup TimeClasses \cup {"hidden", "system", "readonly", "archive", "allflags", "setA", "setB", "setC"},
         tgt : {"file", "dir"},
         \* pre: the state the operation starts from - a freshly created node, or one whose attribute of
         \* the same family already carries an extreme value (mode 7777, ids 4294967294:65535, times 2107)
         \* set by an earlier call of the same kind ("changing one attribute" must also CLEAR what was there)
         pre : {"fresh", "max"}]
Applicable0(t) ==
    \/ t.fmt = "ext4" /\ ((t.op = "chmod" /\ t.cls \in Modes) \/ (t.op = "chown" /\ t.cls \in Ids) \/ (t.op = "chtimes" /\ t.cls \in TimeClasses))
    \/ t.fmt \in {"fat12", "fat16", "fat32"} /\ ((t.op = "chtimes" /\ t.cls \in TimeClasses /\ TimeTable[t.cls].fatm # "-")
                                                  \/ (t.op = "flags" /\ t.cls \in {"hidden", "system", "readonly", "archive", "allflags"} /\ t.tgt = "file"))
    \/ t.fmt \in {"squashfs", "iso"} /\ t.op = "finalize" /\ t.cls \in {"setA", "setB", "setC"} /\ t.tgt = "file"
Applicable(t) ==
  (t.pre = "max" => t.fmt = "ext4") /\ Applicable0(t)

\* ---- the frame predicate over one recorded event ----
\* ev.before / ev.after: [path -> [attribute -> token]] projected through Stat / getters before the
\*   operation and after it on the RE-OPENED image; ev.sets: sequence of [p, a, v] = what must be
\*   reported for the assigned pairs (already through the format's Repr table above)
Assigned(ev, p, a) == \E i \in 1..Len(ev.sets) : ev.sets[i].p = p /\ ev.sets[i].a = a
ValueFor(ev, p, a) == LET i == CHOOSE i \in 1..Len(ev.sets) : ev.sets[i].p = p /\ ev.sets[i].a = a IN ev.sets[i].v
P_C19(ev) == /\ ev.res = "ok"
             /\ DOMAIN ev.after = DOMAIN ev.before
             /\ \A p \in DOMAIN ev.after : \A a \in DOMAIN ev.after[p] :
                   ev.after[p][a] = (IF Assigned(ev, p, a) THEN ValueFor(ev, p, a) ELSE ev.before[p][a])
===============================================================================
