-------------------------------- MODULE FatTree --------------------------------
(* C01 - a FAT12/16/32 volume behaves like a plain tree of named byte strings. *)
(*                                                                             *)
(* State: tree maps every path of a fixed small universe to none / dir / file  *)
(* with its content.  Content is a sequence of write tags, one per UNIT; a     *)
(* cluster is CU = 4 units and the harness maps unit offsets to the byte       *)
(* offsets 0, 1, sector, cluster-1 of each cluster (DESIGN 3.1), so unit       *)
(* arithmetic visits every byte boundary the statement names.  Tag 0 is a hole *)
(* (must read as zeros).  Lookup is case-insensitive on FAT; paths here are    *)
(* abstract identities, the harness chooses spellings.                         *)
(*                                                                             *)
(* Every call has an accept branch (the tree changes as a plain tree would)    *)
(* and a refuse branch (every OTHER file and directory is unchanged).  The     *)
(* statement quantifies over calls the filesystem accepts, so refusing is      *)
(* legal for any call; accepting is legal only where the plain tree can do the *)
(* call.  Success is demanded in one place, as the statement does: space       *)
(* released by remove/truncate must be usable again (Fill).                    *)
EXTENDS Integers, Sequences, FiniteSets, TLC
CONSTANTS CU,           \* units per cluster
          Files, Dirs,  \* the path universe (abstract identities; one directory level below the root)
          InD, InE      \* the files that live in directory "D" / "E" (all other paths live in the root ".");
                        \* InE = {} when the universe has no second directory
Paths == Files \cup Dirs
Parent == [p \in Paths |-> IF p \in InD THEN "D" ELSE IF p \in InE THEN "E" ELSE "."]
VARIABLES tree,         \* [Paths -> node]
          total,        \* data clusters free on the empty volume
          out           \* result class of the last call: "ok" | "err" | "full"
vars == <<tree, total, out>>

None == [kind |-> "none"]
Dir  == [kind |-> "dir"]
File(d) == [kind |-> "file", data |-> d]
Exists(p) == tree[p].kind # "none"
IsFile(p) == tree[p].kind = "file"
IsDir(p)  == IF p = "." THEN TRUE ELSE tree[p].kind = "dir"       \* IF, not \/ : TLC evaluates both disjuncts
Children(d) == {q \in Paths : Parent[q] = d}
Max(a, b) == IF a > b THEN a ELSE b
Clu(n) == (n + CU - 1) \div CU
NodeClusters(n) == IF n.kind = "file" THEN Max(1, Clu(Len(n.data))) ELSE IF n.kind = "dir" THEN 1 ELSE 0
RECURSIVE SumOver(_, _)
SumOver(S, t) == IF S = {} THEN 0 ELSE LET p == CHOOSE x \in S : TRUE IN NodeClusters(t[p]) + SumOver(S \ {p}, t)
Used(t) == SumOver(Paths, t)
Free == total - Used(tree)

Zeros(n) == [i \in 1..n |-> 0]
Tags(n, t) == [i \in 1..n |-> t]
\* write w at unit offset off (zero-filling a gap past the end)
Overlay(old, off, w) ==
    LET base == IF off > Len(old) THEN old \o Zeros(off - Len(old)) ELSE old
        n == Max(Len(base), off + Len(w))
    IN [i \in 1..n |-> IF i > off /\ i <= off + Len(w) THEN w[i - off] ELSE base[i]]

\* ---- what a plain tree does (accept branches) ----
MkdirT(p)  == IF Exists(p) THEN tree ELSE [tree EXCEPT ![p] = Dir]
CanMkdir(p) == p \in Dirs /\ (Exists(p) => IsDir(p)) /\ IsDir(Parent[p])
CreateT(p) == IF Exists(p) THEN tree ELSE [tree EXCEPT ![p] = File(<<>>)]
CanCreate(p) == p \in Files /\ (Exists(p) => IsFile(p)) /\ IsDir(Parent[p])
WriteT(p, off, len, tag) == [tree EXCEPT ![p] = File(Overlay(tree[p].data, off, Tags(len, tag)))]
CanWrite(p) == p \in Files /\ IsFile(p)
AppendT(p, len, tag) == WriteT(p, Len(tree[p].data), len, tag)
TruncT(p) == [tree EXCEPT ![p] = File(<<>>)]
RenameT(p, q) == [tree EXCEPT ![q] = tree[p], ![p] = None]
CanRename(p, q) == /\ p \in Files /\ q \in Files /\ p # q /\ Parent[p] = Parent[q]
                   /\ IsFile(p) /\ (Exists(q) => IsFile(q))
\* renaming a directory: its children move with it (child "D/x" becomes "E/x"); onto nothing or, as a
\* plain tree (POSIX) does, onto an empty directory
Kid(d, n) == d \o "/" \o n
KidNames == {"A", "b"}
KidName(p) == CHOOSE n \in KidNames : \E d \in Dirs : p = Kid(d, n)
RenameDirT(d, e) == [p \in Paths |-> IF p = e THEN Dir
                                     ELSE IF p = d THEN None
                                     ELSE IF Parent[p] = e THEN (IF Kid(d, KidName(p)) \in Paths THEN tree[Kid(d, KidName(p))] ELSE None)
                                     ELSE IF Parent[p] = d THEN None
                                     ELSE tree[p]]
CanRenameDir(d, e) == /\ d \in Dirs /\ e \in Dirs /\ d # e /\ tree[d].kind = "dir"
                      /\ (Exists(e) => \A q \in Children(e) : ~Exists(q))
                      /\ \A q \in Children(d) : Kid(e, KidName(q)) \in Paths      \* the universe can name the moved children
RemoveT(p) == [tree EXCEPT ![p] = None]
CanRemove(p) == /\ p \in Paths /\ Exists(p)
                /\ (tree[p].kind = "dir" => \A q \in Children(p) : ~Exists(q))

\* ---- the frame condition of a refused call: every other path is as before ----
OthersUnchanged(t2, touched) == \A q \in Paths \ touched : t2[q] = tree[q]

\* ---- Fill: append whole clusters to p until the volume refuses; k clusters went in ----
\* P_C01_Reuse: all space the plain tree says is free can be used (minus Slack for
\* directory growth and allocation granularity) and not more than is free.
Slack == 1
\* whole clusters of data that still fit behind the end of p: the unused tail of its last
\* cluster plus everything the plain tree says is free
FillCap(p) == ((NodeClusters(tree[p]) * CU - Len(tree[p].data)) + Free * CU) \div CU
FillOK(p, k) == IsFile(p) /\ k <= FillCap(p) /\ k >= FillCap(p) - Slack
FillT(p, k, tag) == [tree EXCEPT ![p] = File(tree[p].data \o Tags(k * CU, tag))]

TypeOK == /\ \A p \in Paths : tree[p].kind \in {"none", "dir", "file"}
          /\ \A p \in Dirs : tree[p].kind \in {"none", "dir"}
          /\ \A p \in Files : tree[p].kind \in {"none", "file"}
\* a child exists only inside an existing directory
P_C01_Shape == \A p \in Paths : Exists(p) => IsDir(Parent[p])
===============================================================================
