--------------------------------- MODULE ExtTree ---------------------------------
(* C04 / C19(ext4) - an ext4 volume behaves like a plain tree of files,            *)
(* directories and symlinks with attributes.                                        *)
(*                                                                                  *)
(* tree maps every path of a small universe to none / dir / file(data) /            *)
(* link(target); attr holds, per existing node, the attributes the API can set:     *)
(* mode (permission + setuid/setgid/sticky bits), uid, gid, mt, at (modification     *)
(* and access time) - all as opaque tokens (decimal strings; TLC integers are 32     *)
(* bit).  Content is one write tag per UNIT, block = 4 units, tag 0 = hole (zeros).  *)
(* Names are case-sensitive; there is no Rename (not implemented by the library).    *)
(* Every call has an accept and a refuse branch; a refused call changes nothing      *)
(* but its own target.  The statement demands success in one place: reading a file   *)
(* the library itself wrote never fails (events with a read error are rejected).     *)
EXTENDS Integers, Sequences, FiniteSets, TLC
CONSTANTS CU, Files, Dirs, Links, InD
Paths == Files \cup Dirs \cup Links
Parent == [p \in Paths |-> IF p \in InD THEN "d" ELSE "."]
VARIABLES tree, attr, out
vars == <<tree, attr, out>>
None == [kind |-> "none"]
Dir  == [kind |-> "dir"]
File(d) == [kind |-> "file", data |-> d]
Link(t) == [kind |-> "link", target |-> t]
NoAttr == [mode |-> "", uid |-> "", gid |-> "", mt |-> "", at |-> ""]
Exists(p) == tree[p].kind # "none"
IsFile(p) == tree[p].kind = "file"
IsDir(p)  == IF p = "." THEN TRUE ELSE tree[p].kind = "dir"
Children(d) == {q \in Paths : Parent[q] = d}
Max(a, b) == IF a > b THEN a ELSE b
Zeros(n) == [i \in 1..n |-> 0]
Tags(n, t) == [i \in 1..n |-> t]
Overlay(old, off, w) ==
    LET base == IF off > Len(old) THEN old \o Zeros(off - Len(old)) ELSE old
        n == Max(Len(base), off + Len(w))
    IN [i \in 1..n |-> IF i > off /\ i <= off + Len(w) THEN w[i - off] ELSE base[i]]

\* ---- plain-tree effects ----
CanMkdir(p)  == p \in Dirs /\ (Exists(p) => IsDir(p)) /\ IsDir(Parent[p])
MkdirT(p)    == IF Exists(p) THEN tree ELSE [tree EXCEPT ![p] = Dir]
CanCreate(p) == p \in Files /\ (Exists(p) => IsFile(p)) /\ IsDir(Parent[p])
CreateT(p)   == IF Exists(p) THEN tree ELSE [tree EXCEPT ![p] = File(<<>>)]
CanWrite(p)  == p \in Files /\ IsFile(p)
WriteT(p, off, len, tag) == [tree EXCEPT ![p] = File(Overlay(tree[p].data, off, Tags(len, tag)))]
AppendT(p, len, tag)     == WriteT(p, Len(tree[p].data), len, tag)
\* Truncate(p, n) (ext4.FileSystem.Truncate; beyond the calls C04 lists, but an "operation on the volume"
\* for C05): a plain tree cuts the content to n units or extends it with zeros
TruncateT(p, n) == [tree EXCEPT ![p] = File(IF n <= Len(tree[p].data) THEN SubSeq(tree[p].data, 1, n)
                                             ELSE tree[p].data \o Zeros(n - Len(tree[p].data)))]
CanSymlink(p) == p \in Links /\ ~Exists(p) /\ IsDir(Parent[p])
SymlinkT(p, t) == [tree EXCEPT ![p] = Link(t)]
CanRemove(p) == p \in Paths /\ Exists(p) /\ (tree[p].kind = "dir" => \A q \in Children(p) : ~Exists(q))
RemoveT(p)   == [tree EXCEPT ![p] = None]
\* attribute setters act on an existing file or directory (symlinks are followed by the
\* library; the universe has no symlink to an existing target, so they are not used here)
CanAttr(p)   == p \in Files \cup Dirs /\ Exists(p)

OthersUnchanged(t2, touched) == \A q \in Paths \ touched : t2[q] = tree[q]
\* which attribute fields may differ between a and b
SameExcept(a, b, fields) == \A f \in {"mode", "uid", "gid", "mt", "at"} \ fields : a[f] = b[f]

TypeOK == /\ \A p \in Dirs : tree[p].kind \in {"none", "dir"}
          /\ \A p \in Files : tree[p].kind \in {"none", "file"}
          /\ \A p \in Links : tree[p].kind \in {"none", "link"}
P_C04_Shape == \A p \in Paths : Exists(p) => IsDir(Parent[p])
\* kinds are never reported as one another: TypeOK above, enforced on every projected tree
===============================================================================
