------------------------------- MODULE FatDisk_MC -------------------------------
(* Cluster-level model of the library's FAT operations (the implementation-     *)
(* shaped level under FatTree): a FAT, directory entries with first cluster and  *)
(* size, cluster contents.  Allocation takes ANY free clusters (policy is not    *)
(* part of the property).  TLC checks that every reachable state satisfies the   *)
(* soundness predicates of FatDisk (P_C08) and that every step, seen through the *)
(* abstraction AbsTree, is a step of the plain tree of FatTree (so: sound        *)
(* structures + correct data placement => C01).                                  *)
EXTENDS FatDisk
CONSTANTS NC, CU, MaxLen, MaxTag, Files, Dirs, InD
Paths == Files \cup Dirs
Parent == [p \in Paths |-> IF p \in InD THEN "D" ELSE "."]
Clusters == 2..(NC + 1)
FREE == 0
EOC == -1
VARIABLES fat, ents, cdata, tag
mvars == <<fat, ents, cdata, tag>>
NoEnt == [kind |-> "none", first |-> 0, size |-> 0]
Exists(p) == ents[p].kind # "none"
IsFile(p) == ents[p].kind = "file"
IsDir(p) == IF p = "." THEN TRUE ELSE ents[p].kind = "dir"
Max(a, b) == IF a > b THEN a ELSE b
Clu(n) == (n + CU - 1) \div CU
FreeSet == {c \in Clusters : fat[c] = FREE}
RECURSIVE ChainFrom(_, _)
ChainFrom(c, n) == IF n = 0 \/ c \notin Clusters THEN <<>> ELSE IF fat[c] = EOC \/ fat[c] = FREE THEN <<c>> ELSE <<c>> \o ChainFrom(fat[c], n - 1)
Chain(p) == ChainFrom(ents[p].first, NC)
RECURSIVE Flat(_)
Flat(s) == IF s = <<>> THEN <<>> ELSE cdata[Head(s)] \o Flat(Tail(s))
Content(p) == SubSeq(Flat(Chain(p)), 1, ents[p].size)
\* ascending sequence of the elements of S
RECURSIVE Asc(_)
Asc(S) == IF S = {} THEN <<>> ELSE LET m == CHOOSE x \in S : \A y \in S : x <= y IN <<m>> \o Asc(S \ {m})
LinkChain(f, s) == [c \in Clusters |-> IF \E i \in 1..Len(s) : s[i] = c
                                        THEN LET i == CHOOSE i \in 1..Len(s) : s[i] = c IN IF i = Len(s) THEN EOC ELSE s[i + 1]
                                        ELSE f[c]]
FreeChain(f, s) == [c \in Clusters |-> IF c \in Range(s) THEN FREE ELSE f[c]]
Zero == [i \in 1..CU |-> 0]
Alloc(k) == {S \in SUBSET FreeSet : Cardinality(S) = k}

Mkdir(p) == /\ p \in Dirs /\ ~Exists(p) /\ IsDir(Parent[p])
            /\ \E S \in Alloc(1) : LET s == Asc(S) IN
                 /\ fat' = LinkChain(fat, s)
                 /\ ents' = [ents EXCEPT ![p] = [kind |-> "dir", first |-> s[1], size |-> 0]]
                 /\ cdata' = [cdata EXCEPT ![s[1]] = Zero]
            /\ UNCHANGED tag
Create(p) == /\ p \in Files /\ ~Exists(p) /\ IsDir(Parent[p])
             /\ \E S \in Alloc(1) : LET s == Asc(S) IN
                  /\ fat' = LinkChain(fat, s)
                  /\ ents' = [ents EXCEPT ![p] = [kind |-> "file", first |-> s[1], size |-> 0]]
                  /\ cdata' = [cdata EXCEPT ![s[1]] = Zero]
             /\ UNCHANGED tag
\* write len units of tag at unit offset off: grow the chain, zero-fill a gap, place the data
WriteAt(p, off, len) ==
  /\ IsFile(p) /\ tag <= MaxTag
  /\ LET old == Chain(p)
         newsize == Max(ents[p].size, off + len)
         need == Max(1, Clu(newsize)) - Len(old) IN
     /\ newsize <= MaxLen /\ need <= Cardinality(FreeSet)
     /\ \E S \in Alloc(Max(need, 0)) :
          LET ch == old \o Asc(S)
              uc(u) == ch[((u - 1) \div CU) + 1]       \* cluster holding unit u
              ui(u) == ((u - 1) % CU) + 1 IN
          /\ fat' = LinkChain(fat, ch)
          /\ ents' = [ents EXCEPT ![p].size = newsize]
          /\ cdata' = [c \in Clusters |-> [i \in 1..CU |->
                          IF \E u \in (off + 1)..(off + len) : uc(u) = c /\ ui(u) = i THEN tag
                          ELSE IF \E u \in (ents[p].size + 1)..off : uc(u) = c /\ ui(u) = i THEN 0      \* the gap reads as zeros
                          ELSE cdata[c][i]]]
  /\ tag' = tag + 1
\* truncating open: keep the first cluster, release the rest
Trunc(p) == /\ IsFile(p)
            /\ LET ch == Chain(p) IN /\ fat' = LinkChain(FreeChain(fat, ch), <<ch[1]>>)
                                     /\ ents' = [ents EXCEPT ![p].size = 0]
                                     /\ UNCHANGED cdata
            /\ UNCHANGED tag
Remove(p) == /\ Exists(p) /\ (ents[p].kind = "dir" => \A q \in Paths : Parent[q] = p => ~Exists(q))
             /\ fat' = FreeChain(fat, Chain(p)) /\ ents' = [ents EXCEPT ![p] = NoEnt] /\ UNCHANGED <<cdata, tag>>
Rename(p, q) == /\ p \in Files /\ q \in Files /\ p # q /\ Parent[p] = Parent[q] /\ IsFile(p) /\ (Exists(q) => IsFile(q))
                /\ fat' = IF Exists(q) THEN FreeChain(fat, Chain(q)) ELSE fat
                /\ ents' = [ents EXCEPT ![q] = ents[p], ![p] = NoEnt] /\ UNCHANGED <<cdata, tag>>
Init == /\ fat = [c \in Clusters |-> FREE] /\ ents = [p \in Paths |-> NoEnt]
        /\ cdata = [c \in Clusters |-> Zero] /\ tag = 1
Next == \/ \E p \in Dirs : Mkdir(p)
        \/ \E p \in Files : Create(p) \/ Trunc(p)
        \/ \E p \in Paths : Remove(p)
        \/ \E p, q \in Files : Rename(p, q)
        \/ \E p \in Files : IsFile(p) /\ \E off \in {0, 1, ents[p].size, ents[p].size + 1}, len \in {1, CU + 1} : WriteAt(p, off, len)
Spec == Init /\ [][Next]_mvars

\* ---- the view the C08 predicates are stated over ----
LivePaths == {p \in Paths : Exists(p)}
RECURSIVE EntSeq(_)
EntSeq(S) == IF S = {} THEN <<>> ELSE LET p == CHOOSE x \in S : TRUE IN
               <<[path |-> p, dir |-> ents[p].kind = "dir", first |-> ents[p].first, size |-> ents[p].size,
                  chain |-> [i \in 1..Len(Chain(p)) |-> <<Chain(p)[i], Chain(p)[i]>>], clen |-> Len(Chain(p)),
                  bad |-> IF \E i \in 1..Len(Chain(p)) : fat[Chain(p)[i]] = FREE THEN "free"
                          ELSE IF Chain(p) = <<>> \/ fat[Chain(p)[Len(Chain(p))]] # EOC THEN "noeoc" ELSE ""]>> \o EntSeq(S \ {p})
ViewOf == [ncl |-> NC, cb |-> CU, ents |-> EntSeq(LivePaths), rootchain |-> <<>>, rootbad |-> "",
           used |-> [i \in 1..Len(Asc({c \in Clusters : fat[c] # FREE})) |-> <<Asc({c \in Clusters : fat[c] # FREE})[i], Asc({c \in Clusters : fat[c] # FREE})[i]>>], beyond |-> <<>>,
           bootok |-> TRUE, fitsrange |-> TRUE, kindok |-> TRUE, backupeq |-> TRUE, fsinfook |-> TRUE, fsinfofreeok |-> TRUE, fatseq |-> TRUE]
Sound == P_C08(ViewOf)

\* ---- refinement: every step is a step of the plain tree (FatTree) ----
AbsTree == [p \in Paths |-> IF ents[p].kind = "file" THEN [kind |-> "file", data |-> Content(p)]
                            ELSE IF ents[p].kind = "dir" THEN [kind |-> "dir"] ELSE [kind |-> "none"]]
T == INSTANCE FatTree WITH tree <- AbsTree, total <- NC, out <- "ok", InE <- {}
PlainTreeStep ==
    \/ \E p \in Dirs : T!CanMkdir(p) /\ AbsTree' = T!MkdirT(p)
    \/ \E p \in Files : T!CanCreate(p) /\ AbsTree' = T!CreateT(p)
    \/ \E p \in Files : T!CanWrite(p) /\ (AbsTree' = T!TruncT(p) \/
          \E off \in 0..MaxLen, len \in 1..(CU + 1), t \in 1..MaxTag : AbsTree' = T!WriteT(p, off, len, t))
    \/ \E p, q \in Files : T!CanRename(p, q) /\ AbsTree' = T!RenameT(p, q)
    \/ \E p \in Paths : T!CanRemove(p) /\ AbsTree' = T!RemoveT(p)
Refines == [][PlainTreeStep]_AbsTree
\* the plain tree's accounting is exact at this level: used clusters = what the tree says
Accounting == Cardinality({c \in Clusters : fat[c] # FREE}) = T!Used(AbsTree)
View == <<fat, ents, cdata>>
===============================================================================
