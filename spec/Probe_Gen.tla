--------------------------------- MODULE Probe_Gen ---------------------------------
(* Histories of Create calls (length 0..D) x placement x size class, for replay.      *)
EXTENDS Probe, Json
CONSTANT D
Places == {"whole", "gpt", "mbr"}
SizeCls == {"mid", "tmin", "tmax"}     \* mid-range size; smallest / largest size the LAST type's Create accepts
VARIABLES place, szc
GInit == Init /\ place \in Places /\ szc \in SizeCls
GNext == Len(hist) < D /\ (\E T \in Types : Create(T)) /\ UNCHANGED <<place, szc>>
GSpec == GInit /\ [][GNext]_<<vars, place, szc>>
Emit == (szc = "mid" \/ Len(hist) >= 1) => PrintT(<<"BEH", ToJson([place |-> place, size |-> szc, hist |-> hist, model |-> ProbeResult])>>)
===============================================================================
