------------------------------- MODULE PartTable -------------------------------
(* C02 / C14(tables) / C03(tables): writing and reading GPT and MBR tables.    *)
(*                                                                             *)
(* The input space is written down as boundary classes (shape tuples) and      *)
(* enumerated by TLC (PartTable_Gen).  The harness concretises a tuple into a  *)
(* real gpt.Table / mbr.Table, writes it with Disk.Partition onto a sparse     *)
(* in-memory device that may already hold another table, reads it back from    *)
(* the bytes alone (partition.Read), parses the bytes with an independent      *)
(* parser, writes the same table a second time and rewrites the table that was *)
(* read.  Numbers that do not fit TLC's 32-bit integers are carried as decimal *)
(* strings; the predicates below only compare them.                            *)
EXTENDS Integers, Sequences, FiniteSets, TLC

\* ---------------- shape space ----------------
GptDims == [count : {"0", "1", "2", "4", "128"},
            idx   : {"dense", "sparse", "unordered"},
            spell : {"startend", "startsize", "all"},
            name  : {"empty", "ascii", "bmp36", "nonbmp18", "nonbmp19", "ascii37"},
            attr  : {"zero", "bit0", "bit63", "all"},
            type  : {"known", "random"},
            disk  : {"min", "m20", "t3"},
            lss   : {"512", "4096"},
            prev  : {"blank", "gpt", "mbr"},
            guid  : {"given", "blank"}]          \* disk and partition GUIDs given, or left for Write to generate
GptBase == [count |-> "2", idx |-> "dense", spell |-> "startend", name |-> "ascii", attr |-> "zero",
            type |-> "known", disk |-> "m20", lss |-> "512", prev |-> "blank", guid |-> "given"]
MbrDims == [count : {"0", "1", "2", "4"},
            type  : {"x83", "xee", "xff", "x0c", "x00"},      \* x00: the type byte of an unused slot, on an entry that has a start, a size and may be bootable
            start : {"one", "s2048", "max"},
            size  : {"one", "s2048", "max"},
            boot  : {"no", "yes"},
            disk  : {"m20", "t3"},
            lss   : {"512", "4096"},
            prev  : {"blank", "gpt", "mbr"}]
MbrBase == [count |-> "2", type |-> "x83", start |-> "s2048", size |-> "s2048", boot |-> "no",
            disk |-> "m20", lss |-> "512", prev |-> "blank"]
Deviations(t, base) == Cardinality({f \in DOMAIN base : t[f] # base[f]})

\* Is the tuple one the library is expected to accept?  (Used for vacuity accounting
\* only: a refusal is never a violation of C02, which speaks of tables Write accepts.)
GptAcceptable(t) == t.name \notin {"nonbmp19", "ascii37"}

\* ---------------- predicates over one recorded event ----------------
\* ev.res            "ok" | "err" | "panic"         result of Disk.Partition
\* ev.norm           expected table after normalisation (guid, parts: seq of records of strings)
\* ev.rd             what partition.Read returned from the bytes alone [res, kind, guid, parts]
\* ev.ranges/.xranges byte ranges reported by Disk.GetPartition / expected
\* ev.raw            independent parser: [bad: seq of failed validity conditions, guid, parts]
\* ev.same2          second Write of the same table produced identical device bytes
\* ev.rewrite        Write(Read(disk)) changed no byte
\* ev.outside        number of bytes changed outside the table's own sectors
\* ev.prevkept       bytes 0..445 (boot code) unchanged
P_C02_NoPanic   (ev) == ev.res # "panic"
P_C02_RoundTrip (ev) == ev.res = "ok" => /\ ev.rd.res = "ok" /\ ev.rd.kind = ev.kind
                                         /\ ev.rd.guid = ev.norm.guid /\ ev.rd.parts = ev.norm.parts
                                         /\ ev.rd.pmbr = ev.norm.pmbr      \* GPT: the protective-MBR flag reads back as written
P_C02_Ranges    (ev) == ev.res = "ok" => ev.ranges = ev.xranges
P_C02_ValidDisk (ev) == ev.res = "ok" => /\ ev.raw.bad = <<>>
                                         /\ ev.raw.guid = ev.norm.guid /\ ev.raw.parts = ev.norm.parts
P_C02(ev) == P_C02_NoPanic(ev) /\ P_C02_RoundTrip(ev) /\ P_C02_Ranges(ev) /\ P_C02_ValidDisk(ev)
P_C14(ev) == ev.res = "ok" => (ev.same2 /\ ev.rewrite)
P_C03(ev) == ev.res # "panic" => (ev.outside = 0 /\ ev.prevkept)
Judge(prop, ev) == CASE prop = "C02" -> P_C02(ev) [] prop = "C14" -> P_C14(ev) [] prop = "C03" -> P_C03(ev)
===============================================================================
