SPECIFICATION TSpec
CONSTANT Prop = "C02"
CONSTRAINT HW
POSTCONDITION Accepted
CHECK_DEADLOCK FALSE
