--------------------------------- MODULE E2fs_Gen ---------------------------------
EXTENDS E2fs, Json
CONSTANT MaxDev
VARIABLE t
Init == t \in {x \in Dims : Dev(x, Base) <= MaxDev \/ Always(x)}
Next == UNCHANGED t
Spec == Init /\ [][Next]_t
Emit == PrintT(<<"BEH", ToJson(t)>>)
===============================================================================
