----------------------------- MODULE Handle_Trace -----------------------------
(* Trace validation for C10.  trace.ndjson holds many behaviours recorded from  *)
(* real file handles, each starting with a Reset event.  Every event must be a  *)
(* step the Handle contract allows, in real byte numbers.  An event no step     *)
(* explains is printed as <<"MISMATCH", l, event>> and the rest of that         *)
(* behaviour is skipped, so one TLC run judges every behaviour.                 *)
EXTENDS Handle, Json
VARIABLES l, skip
Trace == ndJsonDeserialize("trace.ndjson")
Ev == Trace[l]
tvars == <<vars, l, skip>>

TRead == /\ Ev.a = "Read"
         /\ IF closed THEN ClosedRead(Ev.n) /\ Ev.err /\ Ev.k = 0
                      ELSE /\ ~Ev.err
                           /\ ReadRes(Ev.n, Ev.k, Ev.eof)
                           /\ (Ev.k > 0 => Ev.src = pos)      \* the bytes delivered are content[pos..pos+k)
TSeek == /\ Ev.a = "Seek" /\ ~closed
         /\ Seek(Ev.w, Ev.o)
         /\ out'.err = Ev.err
         /\ (~Ev.err => Ev.ret = out'.k)
TSeekClosed == /\ Ev.a = "Seek" /\ closed /\ UNCHANGED vars   \* statement says nothing about Seek after Close
TClose == Ev.a = "Close" /\ IF closed THEN UNCHANGED vars ELSE Close
Match == Ev.panic = "" /\ (TRead \/ TSeek \/ TSeekClosed \/ TClose)   \* a panic is never a step of the contract

InRange == l <= Len(Trace)
Step     == InRange /\ ~skip /\ Ev.a # "Reset" /\ Match /\ l' = l + 1 /\ UNCHANGED skip
Mismatch == /\ InRange /\ ~skip /\ Ev.a # "Reset" /\ ~ENABLED Match
            /\ PrintT(<<"MISMATCH", l, Ev>>)
            /\ skip' = TRUE /\ l' = l + 1 /\ UNCHANGED vars
SkipStep == InRange /\ skip /\ Ev.a # "Reset" /\ l' = l + 1 /\ UNCHANGED <<vars, skip>>
Reset    == /\ InRange /\ Ev.a = "Reset"
            /\ size' = Ev.size /\ pos' = 0 /\ closed' = FALSE /\ out' = NoOut
            /\ skip' = FALSE /\ l' = l + 1
TInit == /\ l = 1 /\ skip = TRUE /\ size = 0 /\ pos = 0 /\ closed = FALSE /\ out = NoOut /\ TLCSet(1, 0)
TNext == Step \/ Mismatch \/ SkipStep \/ Reset
TSpec == TInit /\ [][TNext]_tvars
HW == TLCSet(1, IF l > TLCGet(1) THEN l ELSE TLCGet(1))
Accepted == IF TLCGet(1) = Len(Trace) + 1 THEN TRUE
            ELSE Print(<<"REJECTED", TLCGet(1)>>, FALSE)
===============================================================================
