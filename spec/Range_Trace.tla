-------------------------------- MODULE Range_Trace --------------------------------
EXTENDS Range, Json
VARIABLE l
Trace == ndJsonDeserialize("trace.ndjson")
Ev == Trace[l]
TInit == l = 1 /\ TLCSet(1, 0) /\ dev = [u \in Units |-> 0] /\ wrote = {}
TStep == /\ l <= Len(Trace)
         /\ (IF P_C03(Ev) THEN TRUE ELSE PrintT(<<"MISMATCH", l, Ev.src>>))
         /\ l' = l + 1
         /\ UNCHANGED vars
TSpec == TInit /\ [][TStep]_<<l, vars>>
HW == TLCSet(1, IF l > TLCGet(1) THEN l ELSE TLCGet(1))
Accepted == IF TLCGet(1) = Len(Trace) + 1 THEN TRUE ELSE Print(<<"REJECTED", TLCGet(1)>>, FALSE)
===============================================================================
