--------------------------------- MODULE RoImage ---------------------------------
(* C06 / C07 - a build-once image (ISO9660, squashfs) contains exactly the tree it  *)
(* was built from.                                                                   *)
(*                                                                                   *)
(* Lifecycle (checked by TLC on a small instance): a filesystem object starts in     *)
(* phase "workspace", where Mkdir / write / Symlink act on a scratch tree; Finalize   *)
(* (options) writes the image and moves to phase "finalized", in which the tree that  *)
(* is read back is View(workspace tree, options) and every mutator is refused.        *)
(*                                                                                   *)
(* Input space: tree shape classes x name classes x size classes x symlinks x the     *)
(* options of each format, enumerated by TLC (RoImage_Gen); the harness builds each    *)
(* tree through the library API, finalizes onto an in-memory device (start 0 or       *)
(* inside a larger device), re-opens from bytes, walks, and parses the image           *)
(* independently.  The predicates P_C06 / P_C07 judge each recorded event.             *)
EXTENDS Integers, Sequences, FiniteSets, TLC
TreeDims == [shape : {"empty", "flat1", "wide40", "wide300", "deep8", "deep9", "mixed", "boundary", "manyfrag", "dotdirs", "blocklists", "hugedir"},   \* boundary: directories of 40..75 equal-length names, so that some directory record ends exactly on a block boundary; manyfrag: 1100 files just under one block (squashfs: > 512 fragment blocks, > 1024 inodes, so fragment / export / id tables span several metadata blocks); dotdirs: sibling directories (and files) whose names agree before the first dot (v1.0 / v1.1 / v1.2, conf.d / conf.bak, pkg / pkg.old); blocklists: 40 files of 100 x 4 KiB, so that inodes with long block lists straddle metadata blocks of the inode table
             sizes : {"small", "multi"},
             names : {"plain83", "long", "collide", "unicode", "dotfiles", "max"},      \* max: names of 248..255 bytes (files and directories)
             links : {"no", "yes"}]
IsoDims == [rr : {"rr", "norr"}, joliet : {"jol", "nojol"}, deep : {"deep", "nodeep"},
            bs : {"2048", "4096", "8192"}, start : {"s0", "s1m"}]
SqDims  == [comp : {"none", "gzip", "xz", "lz4", "zstd"},
            flags : {"dflt", "nofrag", "nocompdata", "nocompinodes", "nocompfrags", "nopad", "nonsparse"},
            bs : {"4096", "131072", "1048576"}, start : {"s0", "s1m"}]
IsoSpace == {[t |-> t, o |-> o] : t \in TreeDims, o \in IsoDims}
SqSpace  == {[t |-> t, o |-> o] : t \in TreeDims, o \in SqDims}
TreeBase == [shape |-> "mixed", sizes |-> "small", names |-> "long", links |-> "no"]
IsoBase  == [rr |-> "rr", joliet |-> "nojol", deep |-> "nodeep", bs |-> "2048", start |-> "s0"]
SqBase   == [comp |-> "gzip", flags |-> "dflt", bs |-> "4096", start |-> "s0"]
Dev(r, base) == Cardinality({f \in DOMAIN base : r[f] # base[f]})

\* ---- predicates over one recorded event ----
\* ev.res "ok" (Finalize accepted and the image re-opened) | "refused" | "panic" | "err" (re-open or walk failed)
\* ev.nsrc / nimg / nmatched: entries of the source tree, of the tree read back, and the size of the
\*   largest one-to-one matching in which names agree under the View relation (exact under Rock
\*   Ridge / Joliet, the documented upper-case 8.3 mapping with numeric collision suffixes otherwise)
\*   and kinds, contents and link targets agree
\* ev.raw: independent parse - problems (list), files found, whether the multiset of (size, digest)
\*   of the files equals that of the source tree
TreeSame(ev) == ev.nsrc = ev.nimg /\ ev.nmatched = ev.nsrc
P_C06(ev) == /\ ev.res \in {"ok", "refused"}
             /\ ev.res = "ok" => /\ TreeSame(ev)
                                 /\ ev.raw.problems = <<>>
                                 /\ ev.raw.nfiles = ev.nsrcfiles /\ ev.raw.digests
\* squashfs: the same tree whatever the options and the cache size; superblock bytes_used describes
\* exactly what was written (the bytes written end at bytes_used, or at the next 4 KiB boundary when
\* the image is padded)
Pad4k(n) == ((n + 4095) \div 4096) * 4096
P_C07(ev) == /\ ev.res \in {"ok", "refused"}
             /\ ev.res = "ok" => /\ TreeSame(ev)
                                 /\ \A i \in 1..Len(ev.bycache) : ev.bycache[i] = ev.srcsha
                                 /\ ev.sb.magic
                                 /\ (ev.maxend = ev.sb.used \/ (ev.shape.o.flags # "nopad" /\ ev.maxend = Pad4k(ev.sb.used)))
P_C03img(ev) == ev.res # "panic" => ev.outside = 0

\* ---- lifecycle model ----
CONSTANTS Paths
VARIABLES phase, wtree, itree, out
lvars == <<phase, wtree, itree, out>>
LInit == phase = "workspace" /\ wtree = {} /\ itree = {} /\ out = "ok"
WAdd(p)    == phase = "workspace" /\ wtree' = wtree \cup {p} /\ out' = "ok" /\ UNCHANGED <<phase, itree>>
WRemove(p) == phase = "workspace" /\ p \in wtree /\ wtree' = wtree \ {p} /\ out' = "ok" /\ UNCHANGED <<phase, itree>>
Finalize   == phase = "workspace" /\ phase' = "finalized" /\ itree' = wtree /\ out' = "ok" /\ UNCHANGED wtree
Mutate(p)  == phase = "finalized" /\ out' = "err" /\ UNCHANGED <<phase, wtree, itree>>     \* refused, nothing changes
ReadBack   == phase = "finalized" /\ out' = "ok" /\ UNCHANGED <<phase, wtree, itree>>
LNext == (\E p \in Paths : WAdd(p) \/ WRemove(p) \/ Mutate(p)) \/ Finalize \/ ReadBack
LSpec == LInit /\ [][LNext]_lvars
P_Image == phase = "finalized" => itree = wtree
P_Frozen == [][phase = "finalized" => itree' = itree]_lvars
===============================================================================
