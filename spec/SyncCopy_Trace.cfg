SPECIFICATION TSpec
CONSTANTS
  Names = {"a"}
  Contents = {1}
CONSTRAINT HW
POSTCONDITION Accepted
CHECK_DEADLOCK FALSE
