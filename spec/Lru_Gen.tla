--------------------------------- MODULE Lru_Gen ---------------------------------
(* Schedule generation for C17: a history variable records, for every step of an   *)
(* interleaving, which process moved from which label, the position a reader chose, *)
(* and the abstract cache state after the step.  With -simulate each complete run   *)
(* (all processes Done) is printed as one behaviour; the harness forces exactly     *)
(* that interleaving on real goroutines through the gates in lru.go and compares    *)
(* the cache state after every step.                                                *)
EXTENDS Lru_MC, Json
VARIABLE hist
Snap == [keys |-> Keys,
         order |-> [i \in 1..Len(order) |-> bpos[order[i]]],
         hasdata |-> {p \in Keys : data[cache[p]] # 0},
         max |-> maxBlocks]
GInit == Init /\ hist = <<>>
GNext == \/ \E self \in Readers : /\ reader(self)
                                 /\ hist' = Append(hist, [g |-> self, lbl |-> pc[self], pos |-> pos'[self], to |-> pc'[self], snap |-> Snap'])
         \/ /\ resizer
            /\ hist' = Append(hist, [g |-> "rz", lbl |-> pc["rz"], pos |-> 0, to |-> pc'["rz"], snap |-> Snap'])
GSpec == GInit /\ [][GNext]_<<vars, hist>>
Finished == \A p \in ProcSet : pc[p] = "Done"
Emit == Finished => PrintT(<<"BEH", ToJson(hist)>>)
===============================================================================
