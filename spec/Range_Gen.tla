--------------------------------- MODULE Range_Gen ---------------------------------
EXTENDS Range, Json
VARIABLE t
GInit == t \in Tuples /\ dev = [u \in Units |-> 0] /\ wrote = {}
GNext == UNCHANGED <<t, vars>>
GSpec == GInit /\ [][GNext]_<<t, vars>>
Emit == PrintT(<<"BEH", ToJson(t)>>)
===============================================================================
