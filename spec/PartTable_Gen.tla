----------------------------- MODULE PartTable_Gen -----------------------------
(* Enumerates the shape tuples of PartTable: all tuples that deviate from the  *)
(* base tuple in at most MaxDev dimensions (MaxDev = 9 is the full product).   *)
EXTENDS PartTable, Json
CONSTANT MaxDev
VARIABLE t
Init == \/ /\ t \in [k : {"gpt"}, s : {x \in GptDims : Deviations(x, GptBase) <= MaxDev}]
        \/ /\ t \in [k : {"mbr"}, s : {x \in MbrDims : Deviations(x, MbrBase) <= MaxDev}]
Next == UNCHANGED t
Spec == Init /\ [][Next]_t
Emit == PrintT(<<"BEH", ToJson(t)>>)
===============================================================================
