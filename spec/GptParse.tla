-------------------------------- MODULE GptParse --------------------------------
(* C15 - reading a partition table from untrusted bytes cannot crash.          *)
(* The fault space is written down completely: every single-field corruption  *)
(* of a valid GPT (either copy, or both) with boundary values, with and        *)
(* without the header CRC recomputed; every 2-field combination of the         *)
(* size-determining fields; truncated devices; MBR corruptions; plus seeded     *)
(* random images.  The allowed outcomes are a table or an error - never a      *)
(* panic, a hang or an allocation out of proportion to the device - and a      *)
(* returned table must come from a CRC-valid copy.                              *)
EXTENDS Integers, Sequences, FiniteSets, TLC
Fields == {"sig", "rev", "hsize", "hcrc", "reserved", "mylba", "altlba", "first", "last",
           "arrlba", "count", "esize", "arrcrc"}
Vals   == {"zero", "one", "max", "maxm1", "sign", "ovf", "dev", "wrap"}
\* "wrap": a value chosen together with the other size fields so that LBA * sector + count * entry
\* size wraps around 2^64 to a small number (an overflow-unsafe bounds check lets it through)
SizeFields == {"arrlba", "count", "esize"}
Single == [kind : {"gpt1"}, copy : {"primary", "backup", "both"}, field : Fields, val : Vals, fix : {"no", "yes"}]
FieldPairs == {<<"arrlba", "count">>, <<"arrlba", "esize">>, <<"count", "esize">>}
Pairs  == {p \in [kind : {"gpt2"}, copy : {"primary", "both"}, f1 : SizeFields, v1 : Vals, f2 : SizeFields, v2 : Vals, fix : {"yes"}] : <<p.f1, p.f2>> \in FieldPairs}
Trunc  == [kind : {"trunc"}, len : {"zero", "s1", "s2", "midarr", "nobackup", "oddbyte"}, lss : {"512", "4096"}]
\* base: all four slots in use / one partition and three unused (all-zero) slots / the protective MBR of a
\* valid GPT disk (slot 1 = 0xEE, three unused slots): a damaged field of an UNUSED slot is a fault too
MbrF   == [kind : {"mbr"}, base : {"full", "one", "pmbr"}, field : {"sig", "boot", "type", "start", "size"}, val : Vals, slot : {"1", "2", "4"}]
\* the same 16 KiB array described with another entry size: count x esize stays 128 x 128 bytes, both CRCs
\* are consistent with what the header says (the array bytes do not change, the header CRC is recomputed)
Rescale == [kind : {"rescale"}, copy : {"primary", "both"}, esize : {"1", "2", "32", "64", "256", "512", "4096"}]
RandN(n) == [kind : {"rand"}, n : 1..n]
Space(nrand, withPairs) == Single \cup Trunc \cup MbrF \cup Rescale \cup RandN(nrand) \cup (IF withPairs THEN Pairs ELSE {})

\* ev.out  "table" | "error" | "panic" | "hang" | "oom" | "crash"
\* ev.alloc_mb, ev.dev_mb   megabytes allocated during the call / device size
\* ev.crcvalid   the copy the table was taken from is CRC-valid for the independent parser
\* ev.parts      the returned partitions equal the independent parser's decode of that copy
AllocBound(ev) == ev.alloc_mb <= 8 * ev.dev_mb + 64
P_C15(ev) == /\ ev.out \in {"table", "error"}
             /\ AllocBound(ev)
             /\ ev.out = "table" => (ev.crcvalid /\ ev.parts)
===============================================================================
