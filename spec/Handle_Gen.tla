------------------------------ MODULE Handle_Gen ------------------------------
(* Behaviour generation for C10: every call sequence of length D over the      *)
(* boundary alphabet (BFS), or long random ones (-simulate).  Results are not   *)
(* part of a behaviour - the real handle produces them and Handle_Trace judges. *)
EXTENDS Handle, Json
CONSTANTS Sizes, ReadNs, D
SeekOffs == {-5, -1, 0, 1, 4, 10}
VARIABLE hist
Whences == {"start", "cur", "end"}
Init == /\ size \in Sizes /\ pos = 0 /\ closed = FALSE /\ out = NoOut
        /\ hist = <<[a |-> "Reset", size |-> size]>>
Log(r) == hist' = Append(hist, r)
Next == /\ Len(hist) < D + 1
        /\ \/ \E n \in ReadNs : (Read(n) \/ ClosedRead(n)) /\ Log([a |-> "Read", n |-> n])
           \/ \E w \in Whences, o \in SeekOffs : Seek(w, o) /\ Log([a |-> "Seek", w |-> w, o |-> o])
           \/ Close /\ Log([a |-> "Close"])
Spec == Init /\ [][Next]_<<vars, hist>>
Emit == (Len(hist) = D + 1) => PrintT(<<"BEH", ToJson(hist)>>)
===============================================================================
