SPECIFICATION MSpec
CONSTANTS
  Slots = {"1", "2", "3"}
  Big = {"3"}
  MaxTag = 2
INVARIANTS TypeOK P_TableNamesSlots P_BuildOnceFrozen P_RawHasNoFs
PROPERTIES P_OneSlotPerStep P_TableXorContent
CHECK_DEADLOCK FALSE
