---------------------------------- MODULE Disk_Gen ----------------------------------
(* Behaviour generation for the composition: random walks (tlc -simulate) of length D  *)
(* over the actions of Disk.tla.  The model state advances when the model can do the    *)
(* call and stays put otherwise (such calls are kept, sparsely, as negative cases: the   *)
(* real disk must refuse them and change nothing).  fresh says whether the harness      *)
(* re-opens the disk from its bytes before the call or keeps using the Disk object of    *)
(* the previous call (cached table).                                                    *)
EXTENDS Disk, Json
CONSTANTS D, Neg
VARIABLES hist, tag
gvars == <<vars, hist, tag>>
Lab == "L" \o ToString(tag)
Log(r) == hist' = Append(hist, r)
Bump == tag' = tag + 1
GInit == Init /\ hist = <<>> /\ tag = 1
\* the subsets of slots a table may name: not all 2^n, the interesting ones
TableSets == {S \in SUBSET Slots : S # {}}
GNext ==
  /\ Len(hist) < D
  /\ \E fr \in BOOLEAN :
     \/ \E k \in Kinds, S \in TableSets :
           /\ (tbl = "none" \/ S # parts \/ k # tbl)
           /\ Partition(k, S) /\ Log([a |-> "Partition", kind |-> k, S |-> S, fresh |-> fr]) /\ UNCHANGED tag
     \/ /\ tbl # "none"
        /\ \/ \E p \in Slots, T \in WTypes :
                 /\ (Neg \/ CanCreate(p, T))
                 /\ cont' = (IF CanCreate(p, T) THEN CreateC(p, T, Lab) ELSE cont) /\ UNCHANGED <<tbl, parts>>
                 /\ Log([a |-> "Create", p |-> p, T |-> T, label |-> Lab, fresh |-> fr]) /\ Bump
           \/ \E p \in Slots, T \in RTypes :
                 /\ CanBuild(p, T)
                 /\ cont' = BuildC(p, T, Lab, tag) /\ UNCHANGED <<tbl, parts>>
                 /\ Log([a |-> "Build", p |-> p, T |-> T, label |-> Lab, tag |-> tag, fresh |-> fr]) /\ Bump
           \/ \E p \in Slots, f \in FNames :
                 /\ (CanPut(p, f) \/ (Neg /\ p \in parts /\ f = "F1"))
                 /\ cont' = (IF CanPut(p, f) THEN PutC(p, f, tag) ELSE cont) /\ UNCHANGED <<tbl, parts>>
                 /\ Log([a |-> "Put", p |-> p, f |-> f, tag |-> tag, fresh |-> fr]) /\ Bump
           \/ \E p \in Slots, f \in FNames :
                 /\ CanDel(p, f)
                 /\ cont' = DelC(p, f) /\ UNCHANGED <<tbl, parts>>
                 /\ Log([a |-> "Del", p |-> p, f |-> f, fresh |-> fr]) /\ UNCHANGED tag
           \/ \E p \in Slots :
                 /\ (CanWriteRaw(p) \/ Neg)
                 /\ cont' = (IF CanWriteRaw(p) THEN WriteRawC(p, tag) ELSE cont) /\ UNCHANGED <<tbl, parts>>
                 /\ Log([a |-> "WriteRaw", p |-> p, tag |-> tag, fresh |-> fr]) /\ Bump
           \/ \E p \in Slots :
                 /\ CanReadRaw(p)
                 /\ UNCHANGED vars
                 /\ Log([a |-> "ReadRaw", p |-> p, fresh |-> fr]) /\ UNCHANGED tag
           \/ \E p, q \in Slots :
                 /\ p # q /\ p \in parts /\ q \in parts /\ (Fits(p, q) \/ Neg)
                 /\ cont' = (IF CanCopy(p, q) THEN CopyC(p, q) ELSE cont) /\ UNCHANGED <<tbl, parts>>
                 /\ Log([a |-> "Copy", p |-> p, q |-> q, fresh |-> fr]) /\ UNCHANGED tag
GSpec == GInit /\ [][GNext]_gvars
Emit == (Len(hist) = D) => PrintT(<<"BEH", ToJson(hist)>>)
===============================================================================
