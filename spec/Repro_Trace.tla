------------------------------- MODULE Repro_Trace -------------------------------
EXTENDS Repro, Json
VARIABLE l
Trace == ndJsonDeserialize("trace.ndjson")
Ev == Trace[l]
TInit == l = 1 /\ TLCSet(1, 0) /\ clockA = 0 /\ clockB = 0 /\ imgA = <<>> /\ imgB = <<>>
TStep == /\ l <= Len(Trace)
         /\ (IF P_C14(Ev) THEN TRUE ELSE PrintT(<<"MISMATCH", l, Ev.a>>))
         /\ l' = l + 1 /\ UNCHANGED vars
TSpec == TInit /\ [][TStep]_<<vars, l>>
HW == TLCSet(1, IF l > TLCGet(1) THEN l ELSE TLCGet(1))
Accepted == IF TLCGet(1) = Len(Trace) + 1 THEN TRUE ELSE Print(<<"REJECTED", TLCGet(1)>>, FALSE)
===============================================================================
