SPECIFICATION Spec
CONSTANTS
  CU = 4
  Files = {"A", "b", "L1", "L2", "D/A", "D/b"}
  Dirs = {"D"}
  InD = {"D/A", "D/b"}
  InE = {}
  Total = 6
  MaxLen = 9
  MaxTag = 3
INVARIANTS TypeOK P_C01_Shape P_C01_Accounting P_C01_FillFills
PROPERTY P_C01_Release
VIEW View
CHECK_DEADLOCK FALSE
