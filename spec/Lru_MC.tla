--------------------------------- MODULE Lru_MC ---------------------------------
(* Exhaustive instances of Lru (all interleavings) and, with the history variable *)
(* of Lru_Gen, schedule generation for forced replay on the real goroutines.      *)
EXTENDS Lru
Resizes02 == <<0, 2>>
Resizes1 == <<1>>
ResizesNone == <<>>
\* termination: every reader finishes all its Gets (checked under weak fairness)
AllDone == \A r \in Readers : pc[r] = "Done"
Live == <>AllDone
FairSpec == Spec /\ \A r \in Readers : WF_vars(reader(r))
===============================================================================
