----------------------------------- MODULE E2fs -----------------------------------
(* C20 - ext4 volumes made by the reference mke2fs are read correctly.               *)
(*                                                                                 *)
(* The configuration space is the product of mke2fs option classes and tree classes; *)
(* one tuple = one image built by /usr/sbin/mke2fs -d (+ debugfs for xattrs) from a    *)
(* generated host tree.  The spec states per tuple what the library owes:             *)
(*   - it may REFUSE to open the image (the statement speaks of images "the library   *)
(*     agrees to open");                                                              *)
(*   - if it opens an image whose features it supports, every node must read back     *)
(*     exactly as put in (kind, content with holes as zeros, size, mode, owner, mtime, *)
(*     link target, xattrs) and nothing else may appear;                              *)
(*   - if the image uses something the library has no code for (block-mapped files of *)
(*     ext2/ext3, inline data) a node may fail WITH AN ERROR, but may never be read as *)
(*     different data, be silently missing, or panic.                                 *)
EXTENDS Integers, Sequences, FiniteSets, TLC
Feats == {"default", "no64bit", "noflex", "nocsum", "nodirindex", "nohuge", "ss2", "nojournal",
          "minimal", "metabg", "ext3", "ext2", "inline",
          "contig"}     \* sparse_super2 without a journal: nothing interrupts the data area (longest contiguous runs)
\* huge: one 100 MiB file (more than 65536 blocks of 1 KiB; extents of the maximal length 32768 that follow
\* one another on disk) in a 160 MiB image
Trees == {"small", "htree", "frag", "sparse", "links", "xattr", "attrs", "huge"}
\* always part of the enumeration, whatever the deviation bound: the huge file on the most contiguous layout
Always(t) == t.tree = "huge" /\ t.feat = "contig" /\ t.isz = "256"
Dims  == [blk : {"1024", "2048", "4096"}, isz : {"128", "256"}, feat : Feats, tree : Trees]
Base  == [blk |-> "4096", isz |-> "256", feat |-> "default", tree |-> "small"]
Dev(r, base) == Cardinality({f \in DOMAIN base : r[f] # base[f]})
\* what the library has no read path for: the weaker clause of the statement applies
\* (block-mapped files, inline data; inodes of 128 bytes: inode.go declares a minimum of 160)
Unsupported == {"ext3", "ext2", "inline"}
Weak(t) == t.feat \in Unsupported \/ t.isz = "128"

\* ---- one recorded event ----
\* ev.t the tuple; ev.open "ok" | "refused" | "panic";
\* ev.bad: sequence of [p, st, what] for every node that did not read back as put in,
\*   st in "error" (the call returned an error), "wrong" (different data/attribute delivered),
\*   "missing" (not listed although its directory listed without error), "panic";
\* ev.extra: number of listed entries that were never put in; ev.n: nodes put in
NodeOK(ev, b) == b.st = "error" /\ Weak(ev.t)
P_C20(ev) == \/ ev.open = "refused"
             \/ /\ ev.open = "ok"
                /\ ev.extra = 0
                /\ \A i \in 1..Len(ev.bad) : NodeOK(ev, ev.bad[i])
===============================================================================
