----------------------------------- MODULE Lru -----------------------------------
(* C17 - concurrent readers of one squashfs image are safe and correct.          *)
(*                                                                               *)
(* A PlusCal transcription of filesystem/squashfs/lru.go, one label per lock       *)
(* operation and per observable step of lru.get and lru.setMaxBlocks (the same     *)
(* names are the gate labels compiled into the code under the build tag `verif`):  *)
(*   LockL   l.mu.Lock()                                                           *)
(*   Look    lookup; on a miss add an empty block (trimming the cache to           *)
(*           maxBlocks-1 first), on a hit move the block to the list head          *)
(*           (everything done while holding l.mu is one atomic step - nobody can   *)
(*           observe an intermediate state)                                        *)
(*   LockB   block.mu.Lock() while still holding l.mu ("transfer the lock")        *)
(*   UnlockL l.mu.Unlock()                                                         *)
(*   Chk     data already there? then return it                                    *)
(*   Fetch   the I/O (outside l.mu, under block.mu)                                *)
(*   Store   block.data = data                                                     *)
(*   UnlockB deferred block.mu.Unlock()                                            *)
(* and for the resizer ZL / ZS (set maxBlocks and trim) / ZU.                      *)
(* Blocks are numbered in creation order; bpos[b] is the position a block was      *)
(* created for; a block that was evicted while its fetch is in flight stays        *)
(* locked by its fetcher and simply becomes unreachable (as in the code).          *)
EXTENDS Integers, Sequences, FiniteSets, TLC
CONSTANTS Readers, Pos, MaxInit, Ops, Resizes, NBlocks
Content(p) == p + 100

(* --algorithm lru
variables lmu = "free", bmu = [b \in 1..NBlocks |-> "free"], cache = [p \in Pos |-> 0],
          order = <<>>, maxBlocks = MaxInit, data = [b \in 1..NBlocks |-> 0], bpos = [b \in 1..NBlocks |-> 0],
          nextb = 1, fetches = 0, returned = [r \in Readers |-> <<>>];
define
  Keys == {p \in Pos : cache[p] # 0}
  Without(s, x) == SelectSeq(s, LAMBDA y : y # x)
  \* drop blocks from the tail of the LRU list until at most n remain (n may be -1)
  RECURSIVE TrimTo(_, _, _)
  TrimTo(c, o, n) == IF Len(o) > n /\ Len(o) > 0
                       THEN TrimTo([c EXCEPT ![bpos[o[Len(o)]]] = 0], SubSeq(o, 1, Len(o) - 1), n)
                       ELSE <<c, o>>
end define;
process reader \in Readers
variables left = Ops, pos \in Pos, blk = 0, res = 0;
begin
 R0: while left > 0 do
       with p \in Pos do pos := p; end with;
 LockL: await lmu = "free"; lmu := self;
 Look:  if cache[pos] = 0 then
           blk := nextb; nextb := nextb + 1; bpos[blk] := pos;
           with t = TrimTo(cache, order, maxBlocks - 1) do
              cache := [t[1] EXCEPT ![pos] = blk] || order := <<blk>> \o t[2];
           end with;
        else
           blk := cache[pos];
           order := <<blk>> \o Without(order, blk);
        end if;
 LockB: await bmu[blk] = "free"; bmu[blk] := self;
 UnlockL: lmu := "free";
 Chk:   if data[blk] # 0 then
           res := data[blk];
           goto UnlockB;
        end if;
 Fetch: fetches := fetches + 1;
 Store: data[blk] := Content(pos); res := Content(pos);
 UnlockB: bmu[blk] := "free";
 Ret:   assert res = Content(pos);
        returned[self] := Append(returned[self], <<pos, res>>);
        left := left - 1;
     end while;
end process;
process resizer = "rz"
variables todo = Resizes;
begin
 Z0: while todo # <<>> do
 ZL:    await lmu = "free"; lmu := "rz";
 ZS:    maxBlocks := Head(todo); todo := Tail(todo);
        with t = TrimTo(cache, order, maxBlocks) do
           cache := t[1] || order := t[2];
        end with;
 ZU:    lmu := "free";
     end while;
end process;
end algorithm; *)
\* BEGIN TRANSLATION
VARIABLES pc, lmu, bmu, cache, order, maxBlocks, data, bpos, nextb, fetches, 
          returned

(* define statement *)
Keys == {p \in Pos : cache[p] # 0}
Without(s, x) == SelectSeq(s, LAMBDA y : y # x)

RECURSIVE TrimTo(_, _, _)
TrimTo(c, o, n) == IF Len(o) > n /\ Len(o) > 0
                     THEN TrimTo([c EXCEPT ![bpos[o[Len(o)]]] = 0], SubSeq(o, 1, Len(o) - 1), n)
                     ELSE <<c, o>>

VARIABLES left, pos, blk, res, todo

vars == << pc, lmu, bmu, cache, order, maxBlocks, data, bpos, nextb, fetches, 
           returned, left, pos, blk, res, todo >>

ProcSet == (Readers) \cup {"rz"}

Init == (* Global variables *)
        /\ lmu = "free"
        /\ bmu = [b \in 1..NBlocks |-> "free"]
        /\ cache = [p \in Pos |-> 0]
        /\ order = <<>>
        /\ maxBlocks = MaxInit
        /\ data = [b \in 1..NBlocks |-> 0]
        /\ bpos = [b \in 1..NBlocks |-> 0]
        /\ nextb = 1
        /\ fetches = 0
        /\ returned = [r \in Readers |-> <<>>]
        (* Process reader *)
        /\ left = [self \in Readers |-> Ops]
        /\ pos \in [Readers -> Pos]
        /\ blk = [self \in Readers |-> 0]
        /\ res = [self \in Readers |-> 0]
        (* Process resizer *)
        /\ todo = Resizes
        /\ pc = [self \in ProcSet |-> CASE self \in Readers -> "R0"
                                        [] self = "rz" -> "Z0"]

R0(self) == /\ pc[self] = "R0"
            /\ IF left[self] > 0
                  THEN /\ \E p \in Pos:
                            pos' = [pos EXCEPT ![self] = p]
                       /\ pc' = [pc EXCEPT ![self] = "LockL"]
                  ELSE /\ pc' = [pc EXCEPT ![self] = "Done"]
                       /\ pos' = pos
            /\ UNCHANGED << lmu, bmu, cache, order, maxBlocks, data, bpos, 
                            nextb, fetches, returned, left, blk, res, todo >>

LockL(self) == /\ pc[self] = "LockL"
               /\ lmu = "free"
               /\ lmu' = self
               /\ pc' = [pc EXCEPT ![self] = "Look"]
               /\ UNCHANGED << bmu, cache, order, maxBlocks, data, bpos, nextb, 
                               fetches, returned, left, pos, blk, res, todo >>

Look(self) == /\ pc[self] = "Look"
              /\ IF cache[pos[self]] = 0
                    THEN /\ blk' = [blk EXCEPT ![self] = nextb]
                         /\ nextb' = nextb + 1
                         /\ bpos' = [bpos EXCEPT ![blk'[self]] = pos[self]]
                         /\ LET t == TrimTo(cache, order, maxBlocks - 1) IN
                              /\ cache' = [t[1] EXCEPT ![pos[self]] = blk'[self]]
                              /\ order' = <<blk'[self]>> \o t[2]
                    ELSE /\ blk' = [blk EXCEPT ![self] = cache[pos[self]]]
                         /\ order' = <<blk'[self]>> \o Without(order, blk'[self])
                         /\ UNCHANGED << cache, bpos, nextb >>
              /\ pc' = [pc EXCEPT ![self] = "LockB"]
              /\ UNCHANGED << lmu, bmu, maxBlocks, data, fetches, returned, 
                              left, pos, res, todo >>

LockB(self) == /\ pc[self] = "LockB"
               /\ bmu[blk[self]] = "free"
               /\ bmu' = [bmu EXCEPT ![blk[self]] = self]
               /\ pc' = [pc EXCEPT ![self] = "UnlockL"]
               /\ UNCHANGED << lmu, cache, order, maxBlocks, data, bpos, nextb, 
                               fetches, returned, left, pos, blk, res, todo >>

UnlockL(self) == /\ pc[self] = "UnlockL"
                 /\ lmu' = "free"
                 /\ pc' = [pc EXCEPT ![self] = "Chk"]
                 /\ UNCHANGED << bmu, cache, order, maxBlocks, data, bpos, 
                                 nextb, fetches, returned, left, pos, blk, res, 
                                 todo >>

Chk(self) == /\ pc[self] = "Chk"
             /\ IF data[blk[self]] # 0
                   THEN /\ res' = [res EXCEPT ![self] = data[blk[self]]]
                        /\ pc' = [pc EXCEPT ![self] = "UnlockB"]
                   ELSE /\ pc' = [pc EXCEPT ![self] = "Fetch"]
                        /\ res' = res
             /\ UNCHANGED << lmu, bmu, cache, order, maxBlocks, data, bpos, 
                             nextb, fetches, returned, left, pos, blk, todo >>

Fetch(self) == /\ pc[self] = "Fetch"
               /\ fetches' = fetches + 1
               /\ pc' = [pc EXCEPT ![self] = "Store"]
               /\ UNCHANGED << lmu, bmu, cache, order, maxBlocks, data, bpos, 
                               nextb, returned, left, pos, blk, res, todo >>

Store(self) == /\ pc[self] = "Store"
               /\ data' = [data EXCEPT ![blk[self]] = Content(pos[self])]
               /\ res' = [res EXCEPT ![self] = Content(pos[self])]
               /\ pc' = [pc EXCEPT ![self] = "UnlockB"]
               /\ UNCHANGED << lmu, bmu, cache, order, maxBlocks, bpos, nextb, 
                               fetches, returned, left, pos, blk, todo >>

UnlockB(self) == /\ pc[self] = "UnlockB"
                 /\ bmu' = [bmu EXCEPT ![blk[self]] = "free"]
                 /\ pc' = [pc EXCEPT ![self] = "Ret"]
                 /\ UNCHANGED << lmu, cache, order, maxBlocks, data, bpos, 
                                 nextb, fetches, returned, left, pos, blk, res, 
                                 todo >>

Ret(self) == /\ pc[self] = "Ret"
             /\ Assert(res[self] = Content(pos[self]), 
                       "Failure of assertion at line 63, column 9.")
             /\ returned' = [returned EXCEPT ![self] = Append(returned[self], <<pos[self], res[self]>>)]
             /\ left' = [left EXCEPT ![self] = left[self] - 1]
             /\ pc' = [pc EXCEPT ![self] = "R0"]
             /\ UNCHANGED << lmu, bmu, cache, order, maxBlocks, data, bpos, 
                             nextb, fetches, pos, blk, res, todo >>

reader(self) == R0(self) \/ LockL(self) \/ Look(self) \/ LockB(self)
                   \/ UnlockL(self) \/ Chk(self) \/ Fetch(self)
                   \/ Store(self) \/ UnlockB(self) \/ Ret(self)

Z0 == /\ pc["rz"] = "Z0"
      /\ IF todo # <<>>
            THEN /\ pc' = [pc EXCEPT !["rz"] = "ZL"]
            ELSE /\ pc' = [pc EXCEPT !["rz"] = "Done"]
      /\ UNCHANGED << lmu, bmu, cache, order, maxBlocks, data, bpos, nextb, 
                      fetches, returned, left, pos, blk, res, todo >>

ZL == /\ pc["rz"] = "ZL"
      /\ lmu = "free"
      /\ lmu' = "rz"
      /\ pc' = [pc EXCEPT !["rz"] = "ZS"]
      /\ UNCHANGED << bmu, cache, order, maxBlocks, data, bpos, nextb, fetches, 
                      returned, left, pos, blk, res, todo >>

ZS == /\ pc["rz"] = "ZS"
      /\ maxBlocks' = Head(todo)
      /\ todo' = Tail(todo)
      /\ LET t == TrimTo(cache, order, maxBlocks') IN
           /\ cache' = t[1]
           /\ order' = t[2]
      /\ pc' = [pc EXCEPT !["rz"] = "ZU"]
      /\ UNCHANGED << lmu, bmu, data, bpos, nextb, fetches, returned, left, 
                      pos, blk, res >>

ZU == /\ pc["rz"] = "ZU"
      /\ lmu' = "free"
      /\ pc' = [pc EXCEPT !["rz"] = "Z0"]
      /\ UNCHANGED << bmu, cache, order, maxBlocks, data, bpos, nextb, fetches, 
                      returned, left, pos, blk, res, todo >>

resizer == Z0 \/ ZL \/ ZS \/ ZU

(* Allow infinite stuttering to prevent deadlock on termination. *)
Terminating == /\ \A self \in ProcSet: pc[self] = "Done"
               /\ UNCHANGED vars

Next == resizer
           \/ (\E self \in Readers: reader(self))
           \/ Terminating

Spec == Init /\ [][Next]_vars

Termination == <>(\A self \in ProcSet: pc[self] = "Done")

\* END TRANSLATION

\* ---- properties ----
\* every Get returns the bytes of the position it asked for (asserted at Ret as well)
P_C17_ReturnsRight == \A r \in Readers : \A i \in 1..Len(returned[r]) : returned[r][i][2] = Content(returned[r][i][1])
\* the map and the LRU list describe the same blocks, no block twice
P_C17_Structure == /\ \A p \in Keys : \E i \in 1..Len(order) : order[i] = cache[p]
                   /\ Len(order) = Cardinality(Keys)
                   /\ \A i, j \in 1..Len(order) : i # j => order[i] # order[j]
                   /\ \A p \in Keys : bpos[cache[p]] = p
\* the cache never holds more than max(maxBlocks, 1) blocks when nobody is inside it
P_C17_Bounded == (lmu = "free") => Cardinality(Keys) <= (IF maxBlocks > 1 THEN maxBlocks ELSE 1)
\* lock discipline (stand-in for "no race"): cache/order/maxBlocks change only under lmu,
\* a block's data only under that block's lock
P_C17_LockDiscipline ==
    [][/\ (cache' # cache \/ order' # order \/ maxBlocks' # maxBlocks) => lmu # "free"
       /\ \A b \in 1..NBlocks : data'[b] # data[b] => bmu[b] # "free"]_<<cache, order, maxBlocks, data>>
\* a stored block holds the content of the position it was created for
P_C17_DataRight == \A b \in 1..NBlocks : data[b] # 0 => data[b] = Content(bpos[b])
===============================================================================
