SPECIFICATION Spec
CONSTANTS
  CU = 4
  Files = {"A", "D/A", "E/A"}
  Dirs = {"D", "E"}
  InD = {"D/A"}
  InE = {"E/A"}
  Total = 5
  MaxLen = 5
  MaxTag = 2
INVARIANTS TypeOK P_C01_Shape P_C01_Accounting P_C01_FillFills
PROPERTIES P_C01_Release P_C01_RenameKeeps
VIEW View
CHECK_DEADLOCK FALSE
