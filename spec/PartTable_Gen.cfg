SPECIFICATION Spec
CONSTANT MaxDev = 2
INVARIANT Emit
CHECK_DEADLOCK FALSE
