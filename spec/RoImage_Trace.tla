------------------------------ MODULE RoImage_Trace ------------------------------
EXTENDS RoImage, Json
CONSTANT Prop
VARIABLE l
Trace == ndJsonDeserialize("trace.ndjson")
Ev == Trace[l]
Judge == CASE Prop = "C06" -> P_C06(Ev) [] Prop = "C07" -> P_C07(Ev) [] Prop = "C03" -> P_C03img(Ev)
TInit == l = 1 /\ TLCSet(1, 0) /\ phase = "workspace" /\ wtree = {} /\ itree = {} /\ out = "ok"
TStep == /\ l <= Len(Trace)
         /\ (IF Judge THEN TRUE ELSE PrintT(<<"MISMATCH", l, Ev.res>>))
         /\ l' = l + 1 /\ UNCHANGED lvars
TSpec == TInit /\ [][TStep]_<<l, lvars>>
HW == TLCSet(1, IF l > TLCGet(1) THEN l ELSE TLCGet(1))
Accepted == IF TLCGet(1) = Len(Trace) + 1 THEN TRUE ELSE Print(<<"REJECTED", TLCGet(1)>>, FALSE)
===============================================================================
