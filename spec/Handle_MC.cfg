SPECIFICATION Spec
CONSTANTS
  ShortReads = TRUE
  Sizes = {0, 1, 3, 4, 5, 9}
  ReadNs = {0, 1, 3, 4, 5, 100}
  MaxPos = 14
CONSTRAINT Bound
INVARIANTS TypeOK P_C10_NoOverread P_C10_Progress P_C10_EOFExact P_C10_EOFAtEnd P_C10_ClosedFail P_C10_SeekPos
PROPERTY ReadAdvances
CHECK_DEADLOCK FALSE
