SPECIFICATION FairSpec
CONSTANTS
  Readers = {"r1", "r2"}
  Pos = {1, 2}
  MaxInit = 1
  Ops = 1
  NBlocks = 4
  Resizes <- ResizesNone
  defaultInitValue = 0
PROPERTY Live
