---------------------------------- MODULE Probe ----------------------------------
(* C12 - existing filesystems and tables are recognised as what they are.          *)
(*                                                                                 *)
(* A byte range holds an overlay of signature regions; creating a filesystem of     *)
(* type T rewrites the regions T's mkfs writes and leaves the others as they were    *)
(* (stale bytes of the previous filesystem).  GetFilesystem is the fall-through      *)
(* chain fat32 -> fat16 -> fat12 -> squashfs -> ext4 -> iso9660, each reader with     *)
(* its acceptance predicate over the regions.  Property: the probe returns the type  *)
(* that was created last (with its label and contents), a blank range has no         *)
(* filesystem, a GPT disk is reported as gpt and an MBR disk as mbr.                 *)
(* The region table below was measured from the real Create calls (which bytes of    *)
(* the first 64 KiB each type writes); TLC checks the model for all histories of     *)
(* length <= 3; the same histories are replayed on real disks and judged by P_C12.    *)
EXTENDS Integers, Sequences, FiniteSets, TLC
Types == {"fat12", "fat16", "fat32", "ext4", "iso", "squashfs"}
Regions == {"boot0",      \* bytes 0..511: FAT boot sector / squashfs superblock (first 96 bytes)
            "sb1024",     \* bytes 1024..2047: ext4 superblock
            "iso32k"}     \* bytes 32768..: ISO9660 volume descriptors
\* regions a Create of type T (re)writes; what it leaves in them
Writes(T) == CASE T \in {"fat12", "fat16", "fat32"} -> {"boot0"}
               [] T = "ext4" -> {"boot0", "sb1024"}       \* ext4.Create zeroes the boot sector area
               [] T = "iso" -> {"boot0", "sb1024", "iso32k"} \* Finalize blanks the 32 KiB system area
               [] T = "squashfs" -> {"boot0", "sb1024"}    \* superblock at 0, data follows
VARIABLES range, last, hist
vars == <<range, last, hist>>
Blank == [r \in Regions |-> "none"]
Sig(T, r) == IF r = "boot0" THEN (IF T \in {"fat12", "fat16", "fat32", "squashfs"} THEN T ELSE "zero")
             ELSE IF r = "sb1024" THEN (IF T = "ext4" THEN "ext4" ELSE "zero")
             ELSE (IF T = "iso" THEN "iso" ELSE "keep")
Create(T) == /\ range' = [r \in Regions |-> IF r \in Writes(T) THEN (IF Sig(T, r) = "keep" THEN range[r] ELSE Sig(T, r)) ELSE range[r]]
             /\ last' = T /\ hist' = Append(hist, T)
Accepts(T) == CASE T \in {"fat12", "fat16", "fat32"} -> range["boot0"] = T
                [] T = "iso" -> range["iso32k"] = "iso"
                [] T = "squashfs" -> range["boot0"] = "squashfs"
                [] T = "ext4" -> range["sb1024"] = "ext4"
Order == <<"fat32", "fat16", "fat12", "squashfs", "ext4", "iso">>
ProbeResult == LET hits == {i \in 1..6 : Accepts(Order[i])} IN
               IF hits = {} THEN "none" ELSE Order[CHOOSE i \in hits : \A j \in hits : i <= j]
Init == range = Blank /\ last = "none" /\ hist = <<>>
Next == Len(hist) < 3 /\ \E T \in Types : Create(T)
Spec == Init /\ [][Next]_vars
P_C12_Model == ProbeResult = last

\* ---- predicate over one recorded replay ----
\* ev.want / ev.got: type created last / type GetFilesystem reports on a freshly opened disk
\*   ("none" = no filesystem found); ev.label / ev.wantlabel; ev.content: the marker file reads back
\* ev.table / ev.wanttable: partition table type reported / written ("none" for whole-disk placement)
P_C12(ev) == /\ ev.got = ev.want
             /\ ev.want # "none" => (ev.label = ev.wantlabel /\ ev.content)
             /\ ev.table = ev.wanttable
             /\ ev.panic = ""
===============================================================================
