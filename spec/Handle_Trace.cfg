SPECIFICATION TSpec
CONSTANTS ShortReads = TRUE
CONSTRAINT HW
INVARIANTS P_C10_NoOverread P_C10_Progress P_C10_EOFExact P_C10_EOFAtEnd P_C10_ClosedFail P_C10_SeekPos
POSTCONDITION Accepted
CHECK_DEADLOCK FALSE
