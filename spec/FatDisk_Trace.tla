------------------------------ MODULE FatDisk_Trace ------------------------------
(* Trace validation for C08: after Create (Reset event) and after every call,   *)
(* accepted or refused, the raw projection of the volume must satisfy P_C08.     *)
EXTENDS FatDisk, Json
VARIABLE l
Trace == ndJsonDeserialize("trace.ndjson")
Ev == Trace[l]
TInit == l = 1 /\ TLCSet(1, 0)
TStep == /\ l <= Len(Trace)
         /\ (IF Ev.raw.ok /\ P_C08(Ev.raw) THEN TRUE
             ELSE PrintT(<<"MISMATCH", l, Ev.a, IF Ev.raw.ok THEN Failing(Ev.raw) ELSE "unparsable">>))
         /\ l' = l + 1
TSpec == TInit /\ [][TStep]_l
HW == TLCSet(1, IF l > TLCGet(1) THEN l ELSE TLCGet(1))
Accepted == IF TLCGet(1) = Len(Trace) + 1 THEN TRUE ELSE Print(<<"REJECTED", TLCGet(1)>>, FALSE)
===============================================================================
