------------------------------- MODULE GptCrash -------------------------------
(* C09 - repartitioning a GPT disk is atomic across power loss.                *)
(*                                                                             *)
(* The device is modelled at sector granularity with a volatile write cache:   *)
(* a write puts its sectors into `cached`, Sync makes everything cached        *)
(* durable, and a power cut (Crash) makes an arbitrary subset of the cached    *)
(* sectors durable and loses the rest.  Only sectors whose content differs     *)
(* between the old and the new image matter; they are numbered 1..N and each   *)
(* belongs to a region (protective MBR, primary/backup header, primary/backup  *)
(* entry array).                                                               *)
(*                                                                             *)
(* The writer's program is NOT prescribed here: it is the sequence of WriteAt  *)
(* and Sync calls recorded from the real gpt.Table.Write (file gptprog.ndjson, *)
(* one line per (old table, new table) pair), so a harmless reordering in the  *)
(* code does not raise an alarm while a dropped Sync changes what TLC explores.*)
(*                                                                             *)
(* The reader is modelled as the operator ReadBack: the primary copy is valid  *)
(* in version v iff its header sector and every differing sector of its array  *)
(* are of version v (CRC abstraction); otherwise the backup copy is tried.     *)
EXTENDS Integers, Sequences, FiniteSets, TLC, Json
Pairs == ndJsonDeserialize("gptprog.ndjson")
\* a pair record: [n |-> N, reg |-> <<region of sector 1, ...>>, oldvalid |-> BOOLEAN,
\*                 prog |-> << [op |-> "w"/"s", secs |-> <<...>>] ... >>]
ExhaustiveMax == 12
VARIABLES pair, pc, persisted, cached, crashed
vars == <<pair, pc, persisted, cached, crashed>>

Range(s) == {s[i] : i \in 1..Len(s)}
P == Pairs[pair]
Secs(r) == {s \in 1..P.n : P.reg[s] = r}
Prog == P.prog

\* --- reader -------------------------------------------------------------
Ver(S, s) == IF s \in S THEN "new" ELSE "old"
\* version of a region that has exactly one (header) sector; "same" if it does not differ
HdrVer(S, r) == IF Secs(r) = {} THEN "same" ELSE Ver(S, CHOOSE s \in Secs(r) : TRUE)
ArrAll(S, r, v) == \A s \in Secs(r) : Ver(S, s) = v
Valid(v) == v = "new" \/ P.oldvalid
\* version the copy (hdr region h, array region a) is valid in, or "bad"
Copy(S, h, a) ==
    LET hv == HdrVer(S, h) IN
    IF hv = "same" THEN (IF ArrAll(S, a, "new") THEN "new" ELSE IF ArrAll(S, a, "old") /\ P.oldvalid THEN "old" ELSE "bad")
    ELSE IF Valid(hv) /\ ArrAll(S, a, hv) THEN hv ELSE "bad"
ReadBack(S) ==
    LET p == Copy(S, "phdr", "parr")
        b == Copy(S, "bhdr", "barr") IN
    IF p # "bad" THEN [t |-> p, rec |-> FALSE]
    ELSE IF b # "bad" THEN [t |-> b, rec |-> TRUE]
    ELSE [t |-> "error", rec |-> FALSE]

\* --- writer and power cut ------------------------------------------------
Init == /\ pair \in 1..Len(Pairs) /\ pc = 1 /\ persisted = {} /\ cached = {} /\ crashed = FALSE
Step == /\ ~crashed /\ pc <= Len(Prog)
        /\ IF Prog[pc].op = "s"
             THEN persisted' = persisted \cup cached /\ cached' = {}
             ELSE cached' = cached \cup Range(Prog[pc].secs) /\ persisted' = persisted
        /\ pc' = pc + 1 /\ UNCHANGED <<pair, crashed>>
\* the sector subsets a power cut may persist: all of them when the cache is small,
\* otherwise the generating family of the property statement
\* the elements of a set of numbers in increasing order
SetToSeq(S) == LET RECURSIVE F(_) 
                   F(T) == IF T = {} THEN <<>> ELSE LET x == CHOOSE y \in T : \A z \in T : y <= z IN <<x>> \o F(T \ {x})
               IN F(S)
Family(C) ==
    IF Cardinality(C) <= ExhaustiveMax THEN SUBSET C
    ELSE LET k == Cardinality(C)
             ord == SetToSeq(C) IN
         {{}, C} \cup {{s} : s \in C}
         \cup {{ord[i] : i \in 1..m} : m \in 1..k} \cup {{ord[i] : i \in m..k} : m \in 1..k}
         \cup {{ord[i] : i \in {j \in 1..k : j % 2 = 0}}, {ord[i] : i \in {j \in 1..k : j % 2 = 1}}}
Crash(S) == /\ ~crashed /\ crashed' = TRUE
            /\ persisted' = persisted \cup S /\ cached' = {}
            /\ UNCHANGED <<pair, pc>>
Next == Step \/ \E S \in Family(cached) : Crash(S)
Spec == Init /\ [][Next]_vars

Done == pc = Len(Prog) + 1 /\ cached = {}
Allowed == IF P.oldvalid THEN {"old", "new"} ELSE {"error", "new"}
\* the property: whatever is durable at any moment reads back as exactly old or exactly new
P_C09_Atomic == ReadBack(persisted).t \in Allowed
P_C09_Done   == Done => ReadBack(persisted) = [t |-> "new", rec |-> FALSE]
\* also without any crash the durable state alone must be readable (a crash that persists nothing)
TypeOK == persisted \subseteq 1..P.n /\ cached \subseteq 1..P.n

\* behaviour emission: every crash state, with the model's prediction
Emit == (crashed \/ Done) =>
          PrintT(<<"BEH", ToJson([pair |-> pair, pc |-> pc, done |-> Done, S |-> SetToSeq(persisted),
                                   pred |-> ReadBack(persisted)])>>)
===============================================================================
