--------------------------------- MODULE SyncCopy ---------------------------------
(* C16 - CopyFileSystem copies faithfully and CompareFS tells the truth.           *)
(*                                                                                 *)
(* Abstractly: trees are sets of (path, kind, content) ; Strip removes the           *)
(* documented excluded names at any depth; Copy(src, dst) makes dst = dst (+) Strip   *)
(* (src); Compare(a, b) = nil  <=>  Strip(a) = Strip(b).  The small model below is    *)
(* checked by TLC over all trees of a tiny universe and all single-point mutations;   *)
(* the same predicates judge the events recorded from the real sync package for      *)
(* every pairing of source and destination filesystem type.                          *)
EXTENDS Integers, Sequences, FiniteSets, TLC
Excluded == {"lost+found", ".DS_Store", "System Volume Information"}
\* mutation kinds applied to a faithful copy, and whether CompareFS must notice them
RealDiffs == {"byte-first", "byte-last", "byte-at-32k", "longer", "shorter", "missing-file", "extra-file",
              "file-for-dir", "dir-for-file", "missing-empty-dir", "extra-empty-dir",
              "extra-after-excluded-file", "extra-dir-after-excluded-file"}   \* an extra entry that sorts after an excluded-name FILE of the same directory
Harmless  == {"none", "extra-excluded-file", "extra-excluded-dir"}
Dims == [src : {"osdir", "fat32", "ext4", "iso", "squashfs", "shortreads"},
         dst : {"fat12", "fat16", "fat32", "ext4"},
         tree : {"small", "buffers", "nested", "excluded", "nearmiss"},      \* nearmiss: names that resemble the excluded ones (other case, a suffix) and are NOT excluded
         mut : RealDiffs \cup Harmless]
Base == [src |-> "osdir", dst |-> "fat32", tree |-> "buffers", mut |-> "none"]
Deviations(t) == Cardinality({f \in DOMAIN Base : t[f] # Base[f]})

\* ev.copy   "ok" | "err" | "panic"     result of CopyFileSystem
\* ev.diff   number of differences the harness' own tree diff finds between Strip(src) and dst after the copy
\* ev.cmp0   "nil" | "err"              CompareFS(src, dst) right after the copy
\* ev.cmp1   "nil" | "err" | "skipped"  CompareFS(src, dst) after the mutation was applied to dst
P_C16_Copy(ev)    == ev.copy = "ok" /\ ev.diff = 0 /\ ev.cmp0 = "nil"
P_C16_Compare(ev) == /\ (ev.shape.mut \in RealDiffs /\ ev.cmp1 # "skipped") => ev.cmp1 = "err"
                     /\ ev.shape.mut \in Harmless => ev.cmp1 \in {"nil", "skipped"}
P_C16(ev) == P_C16_Copy(ev) /\ P_C16_Compare(ev)

\* ---- tiny abstract model: Compare is exactly Strip-equality, for all trees and mutations ----
CONSTANTS Names, Contents
Node == [kind : {"dir"}] \cup [kind : {"file"}, data : Contents]
Trees == [Names -> Node \cup {[kind |-> "none"]}]
Strip(t) == [n \in Names |-> IF n \in Excluded THEN [kind |-> "none"] ELSE t[n]]
Compare(a, b) == IF Strip(a) = Strip(b) THEN "nil" ELSE "err"
CopyT(src, dst) == [n \in Names |-> IF Strip(src)[n].kind # "none" THEN src[n] ELSE dst[n]]
VARIABLES s, d
Init == s \in Trees /\ d = [n \in Names |-> [kind |-> "none"]]
DoCopy == d' = CopyT(s, d) /\ UNCHANGED s
Mutate == \E n \in Names, x \in Node \cup {[kind |-> "none"]} : d' = [d EXCEPT ![n] = x] /\ UNCHANGED s
Next == DoCopy \/ Mutate
Spec == Init /\ [][Next]_<<s, d>>
\* after a copy into an empty destination Compare says nil; a single-point change of a
\* non-excluded name flips it to err, a change of an excluded name does not
P_CopyThenEqual == [][DoCopy => Compare(s', d') = "nil"]_<<s, d>>
P_MutationSeen  == [][(Compare(s, d) = "nil" /\ d' # d /\ s' = s) =>
                        (Compare(s', d') = "err" <=> \E n \in Names \ Excluded : d'[n] # d[n])]_<<s, d>>
===============================================================================
