------------------------------- MODULE FatTree_Gen -------------------------------
(* Behaviour generation for C01/C08/C03/C14: every call sequence of length D    *)
(* over the boundary alphabet (BFS), or long random ones (-simulate).  The model *)
(* state advances along accept branches when the plain tree can do the call and  *)
(* it fits, and stays put otherwise (such calls are expected to be refused: they *)
(* are kept in the alphabet, sparsely, as negative cases).  Results are not part *)
(* of a behaviour: the real volume produces them and FatTree_Trace judges.       *)
EXTENDS FatTree, Json
CONSTANTS Total, MaxLen, D, Neg,     \* Neg: include calls the plain tree cannot do
          WithFill,                 \* include Fill (write until the volume refuses) - for random walks
          Frag                      \* TRUE: the fragmentation family instead of the full alphabet (see FragNext)
VARIABLES hist, tag,
          held        \* the file a write handle is being kept open on ("none": no handle is kept)
gvars == <<vars, hist, tag, held>>
\* Handles that stay open ACROSS other calls: Hold(p) opens a read-write handle on p and keeps it; the next
\* WriteAt / Append to p goes through that handle (log field held = TRUE) and closes it.  For the plain
\* tree this changes nothing - a write is a write; for the implementation the handle carries state taken
\* when it was opened.  While a handle is kept, the calls that would pull the file from under it are not
\* generated (Remove, Rename, Trunc of that file, renaming or removing its directory, Fill); the same calls on
\* its SIBLINGS are: what they change in the shared directory must survive the write through the old handle.
NoHold == held = "none"
Via(p) == held = p
\* a call on path q leaves the kept handle's file and the directories above it alone
Clear(q) == IF NoHold THEN TRUE ELSE (q # held /\ q # Parent[held])      \* IF, not \/ : TLC evaluates both disjuncts
Offs(p) == {0, 1, 3, 4, 5} \cup {Len(tree[p].data), Len(tree[p].data) + 1}
Lens == {1, 3, 4, 5}
Log(r) == hist' = Append(hist, r)
Go(can, t2) == /\ tree' = (IF can /\ Used(t2) <= total THEN t2 ELSE tree)
               /\ out' = "ok" /\ UNCHANGED total
Init == tree = [p \in Paths |-> None] /\ total = Total /\ out = "ok" /\ tag = 1 /\ hist = <<>> /\ held = "none"
Next ==
  /\ Len(hist) < D
  /\ \/ \E p \in Dirs : (Neg \/ ~Exists(p)) /\ Go(CanMkdir(p), MkdirT(p)) /\ Log([a |-> "Mkdir", p |-> p]) /\ UNCHANGED <<tag, held>>
     \/ \E p \in Files : (Neg \/ CanCreate(p)) /\ ~Exists(p) /\ Go(CanCreate(p), CreateT(p)) /\ Log([a |-> "Create", p |-> p]) /\ UNCHANGED <<tag, held>>
     \/ \E p \in Files : NoHold /\ IsFile(p) /\ held' = p /\ Go(TRUE, tree) /\ Log([a |-> "Hold", p |-> p]) /\ UNCHANGED tag
     \/ \E p \in Files : CanWrite(p) /\ \E off \in Offs(p), len \in Lens :
           /\ off + len <= MaxLen
           /\ Go(TRUE, WriteT(p, off, len, tag)) /\ Log([a |-> "WriteAt", p |-> p, off |-> off, len |-> len, tag |-> tag, held |-> Via(p)])
           /\ tag' = tag + 1 /\ held' = (IF Via(p) THEN "none" ELSE held)
     \/ \E p \in Files : CanWrite(p) /\ \E len \in {1, 4, 5} :
           /\ Len(tree[p].data) + len <= MaxLen
           /\ Go(TRUE, AppendT(p, len, tag)) /\ Log([a |-> "Append", p |-> p, len |-> len, tag |-> tag, held |-> Via(p)])
           /\ tag' = tag + 1 /\ held' = (IF Via(p) THEN "none" ELSE held)
     \/ \E p \in Files : Via(p) /\ \E len \in {1, 5} :          \* the held file grows through ANOTHER handle; the kept one stays open
           /\ Len(tree[p].data) + len <= MaxLen
           /\ Go(TRUE, AppendT(p, len, tag)) /\ Log([a |-> "Append", p |-> p, len |-> len, tag |-> tag, held |-> FALSE])
           /\ tag' = tag + 1 /\ UNCHANGED held
     \/ \E p \in Files : Clear(p) /\ CanWrite(p) /\ Len(tree[p].data) > 0 /\ Go(TRUE, TruncT(p)) /\ Log([a |-> "Trunc", p |-> p]) /\ UNCHANGED <<tag, held>>
     \/ \E p, q \in Files : Clear(p) /\ Clear(q) /\ p # q /\ Parent[p] = Parent[q] /\ (CanRename(p, q) \/ (Neg /\ p = "A" /\ ~Exists(p)))
           /\ Go(CanRename(p, q), RenameT(p, q)) /\ Log([a |-> "Rename", p |-> p, q |-> q]) /\ UNCHANGED <<tag, held>>
     \/ \E d, e \in Dirs : Clear(d) /\ Clear(e) /\ d # e /\ (CanRenameDir(d, e) \/ (Neg /\ Exists(d)))
           /\ Go(CanRenameDir(d, e), RenameDirT(d, e)) /\ Log([a |-> "Rename", p |-> d, q |-> e]) /\ UNCHANGED <<tag, held>>
     \/ \E p \in Paths : Clear(p) /\ (CanRemove(p) \/ (Neg /\ (p = "D" \/ p = "A")))
           /\ Go(CanRemove(p), RemoveT(p)) /\ Log([a |-> "Remove", p |-> p]) /\ UNCHANGED <<tag, held>>
     \/ /\ WithFill /\ NoHold /\ \E p \in Files : IsFile(p) /\ Len(tree[p].data) <= MaxLen
           /\ Go(TRUE, FillT(p, FillCap(p), tag)) /\ Log([a |-> "Fill", p |-> p, tag |-> tag]) /\ tag' = tag + 1 /\ UNCHANGED held
     \/ /\ Neg /\ ~Exists("b") /\ Go(FALSE, tree) /\ Log([a |-> "WriteAt", p |-> "b", off |-> 0, len |-> 1, tag |-> tag, held |-> FALSE]) /\ tag' = tag + 1 /\ UNCHANGED held
     \* a truncating open aimed at a DIRECTORY: whatever the answer, nothing changes
     \/ /\ Neg /\ \E p \in Dirs : Exists(p) /\ Go(FALSE, tree) /\ Log([a |-> "TruncDir", p |-> p]) /\ UNCHANGED <<tag, held>>
     \* a write handle is asked for on a DIRECTORY: refused, nothing changes (the directory stays a directory)
     \/ /\ Neg /\ \E p \in Dirs, w \in {"WriteAt", "Append"} : Exists(p) /\ Go(FALSE, tree)
           /\ Log([a |-> w, p |-> p, off |-> 0, len |-> 1, tag |-> tag, held |-> FALSE]) /\ tag' = tag + 1 /\ UNCHANGED held
\* The fragmentation family (bounded-exhaustive): every history of length D of Create / Append (one
\* cluster and a bit, or two whole clusters: chains grow across cluster boundaries) / Remove / Trunc over two
\* files - so that chains interleave, are released and re-used in every order - followed by
\* Create L1, Fill L1: whatever the history, ALL space the plain tree says is free must be usable.
\* Every history starts from two files of two clusters each, written one after the other (FragPrefix).
FragFiles == {"A", "b"}
FragPrefix == << [a |-> "Create", p |-> "A"], [a |-> "Append", p |-> "A", len |-> 8, tag |-> 1],
                [a |-> "Create", p |-> "b"], [a |-> "Append", p |-> "b", len |-> 8, tag |-> 2] >>
FragTree == [p \in Paths |-> IF p = "A" THEN File(Tags(8, 1)) ELSE IF p = "b" THEN File(Tags(8, 2)) ELSE None]
FP == Len(FragPrefix)
FragNext ==
  \/ /\ Len(hist) < FP + D
     /\ \/ \E p \in FragFiles : ~Exists(p) /\ Go(CanCreate(p), CreateT(p)) /\ Log([a |-> "Create", p |-> p]) /\ UNCHANGED tag
        \/ \E p \in FragFiles, n \in {5, 8} : CanWrite(p) /\ Go(TRUE, AppendT(p, n, tag)) /\ Log([a |-> "Append", p |-> p, len |-> n, tag |-> tag]) /\ tag' = tag + 1
        \/ \E p \in FragFiles : CanWrite(p) /\ Len(tree[p].data) > 0 /\ Go(TRUE, TruncT(p)) /\ Log([a |-> "Trunc", p |-> p]) /\ UNCHANGED tag
        \/ \E p \in FragFiles : IsFile(p) /\ Len(tree[p].data) > 0 /\ Go(TRUE, RemoveT(p)) /\ Log([a |-> "Remove", p |-> p]) /\ UNCHANGED tag
  \/ /\ Len(hist) = FP + D /\ Go(CanCreate("L1"), CreateT("L1")) /\ Log([a |-> "Create", p |-> "L1"]) /\ UNCHANGED tag
  \/ /\ Len(hist) = FP + D + 1 /\ Go(IsFile("L1"), IF IsFile("L1") THEN FillT("L1", FillCap("L1"), tag) ELSE tree) /\ Log([a |-> "Fill", p |-> "L1", tag |-> tag]) /\ tag' = tag + 1
FragInit == tree = FragTree /\ total = Total /\ out = "ok" /\ tag = 3 /\ hist = FragPrefix /\ held = "none"
Spec == (IF Frag THEN FragInit ELSE Init) /\ [][IF Frag THEN (FragNext /\ UNCHANGED held) ELSE Next]_gvars
Emit == (Len(hist) = (IF Frag THEN FP + D + 2 ELSE D)) => PrintT(<<"BEH", ToJson(hist)>>)
View == <<tree, hist, held>>
===============================================================================
