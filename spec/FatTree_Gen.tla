------------------------------- MODULE FatTree_Gen -------------------------------
(* Behaviour generation for C01/C08/C03/C14: every call sequence of length D    *)
(* over the boundary alphabet (BFS), or long random ones (-simulate).  The model *)
(* state advances along accept branches when the plain tree can do the call and  *)
(* it fits, and stays put otherwise (such calls are expected to be refused: they *)
(* are kept in the alphabet, sparsely, as negative cases).  Results are not part *)
(* of a behaviour: the real volume produces them and FatTree_Trace judges.       *)
EXTENDS FatTree, Json
CONSTANTS Total, MaxLen, D, Neg,     \* Neg: include calls the plain tree cannot do
          WithFill                  \* include Fill (write until the volume refuses) - for random walks
VARIABLES hist, tag
gvars == <<vars, hist, tag>>
Offs(p) == {0, 1, 3, 4, 5} \cup {Len(tree[p].data), Len(tree[p].data) + 1}
Lens == {1, 3, 4, 5}
Log(r) == hist' = Append(hist, r)
Go(can, t2) == /\ tree' = (IF can /\ Used(t2) <= total THEN t2 ELSE tree)
               /\ out' = "ok" /\ UNCHANGED total
Init == tree = [p \in Paths |-> None] /\ total = Total /\ out = "ok" /\ tag = 1 /\ hist = <<>>
Next ==
  /\ Len(hist) < D
  /\ \/ \E p \in Dirs : (Neg \/ ~Exists(p)) /\ Go(CanMkdir(p), MkdirT(p)) /\ Log([a |-> "Mkdir", p |-> p]) /\ UNCHANGED tag
     \/ \E p \in Files : (Neg \/ CanCreate(p)) /\ ~Exists(p) /\ Go(CanCreate(p), CreateT(p)) /\ Log([a |-> "Create", p |-> p]) /\ UNCHANGED tag
     \/ \E p \in Files : CanWrite(p) /\ \E off \in Offs(p), len \in Lens :
           /\ off + len <= MaxLen
           /\ Go(TRUE, WriteT(p, off, len, tag)) /\ Log([a |-> "WriteAt", p |-> p, off |-> off, len |-> len, tag |-> tag])
           /\ tag' = tag + 1
     \/ \E p \in Files : CanWrite(p) /\ \E len \in {1, 4, 5} :
           /\ Len(tree[p].data) + len <= MaxLen
           /\ Go(TRUE, AppendT(p, len, tag)) /\ Log([a |-> "Append", p |-> p, len |-> len, tag |-> tag])
           /\ tag' = tag + 1
     \/ \E p \in Files : CanWrite(p) /\ Len(tree[p].data) > 0 /\ Go(TRUE, TruncT(p)) /\ Log([a |-> "Trunc", p |-> p]) /\ UNCHANGED tag
     \/ \E p, q \in Files : p # q /\ Parent[p] = Parent[q] /\ (CanRename(p, q) \/ (Neg /\ p = "A" /\ ~Exists(p)))
           /\ Go(CanRename(p, q), RenameT(p, q)) /\ Log([a |-> "Rename", p |-> p, q |-> q]) /\ UNCHANGED tag
     \/ \E p \in Paths : (CanRemove(p) \/ (Neg /\ (p = "D" \/ p = "A")))
           /\ Go(CanRemove(p), RemoveT(p)) /\ Log([a |-> "Remove", p |-> p]) /\ UNCHANGED tag
     \/ /\ WithFill /\ \E p \in Files : IsFile(p) /\ Len(tree[p].data) <= MaxLen
           /\ Go(TRUE, FillT(p, FillCap(p), tag)) /\ Log([a |-> "Fill", p |-> p, tag |-> tag]) /\ tag' = tag + 1
     \/ /\ Neg /\ ~Exists("b") /\ Go(FALSE, tree) /\ Log([a |-> "WriteAt", p |-> "b", off |-> 0, len |-> 1, tag |-> tag]) /\ tag' = tag + 1
Spec == Init /\ [][Next]_gvars
Emit == (Len(hist) = D) => PrintT(<<"BEH", ToJson(hist)>>)
View == <<tree, hist>>
===============================================================================
