---------------------------------- MODULE ReadOnly ----------------------------------
(* C11 - read-only access never modifies the image.                                  *)
(*                                                                                  *)
(* An opened object (a filesystem or a disk) is in mode ro or rw.  ro is reached by    *)
(* several routes: a backend created read-only (file.New(f, true)), a backend whose    *)
(* Writable() fails, a path opened read-only (diskfs.Open(ReadOnly), OpenFromPath),    *)
(* a read-only backend over a file descriptor that is itself writable (rofile),        *)
(* and - whatever the backend - a finalized ISO9660 / squashfs filesystem.  The state  *)
(* of the world is the image (a version counter: it moves only when a byte changes)    *)
(* and the view the live object gives of it (a second counter).  Mutating entry points *)
(* are refused in ro and leave both untouched; reading entry points never write and     *)
(* never change the view, in either mode - also right after a refused mutation (the     *)
(* object must not have updated its in-memory tables before discovering it cannot       *)
(* write).                                                                             *)
EXTENDS Integers, Sequences, FiniteSets, TLC
FsMut  == {"Mkdir", "Create", "OpenRW", "OpenAppend", "OpenTrunc", "WriteOnROHandle", "Rename", "Remove",
           "SetLabel", "Chmod", "Chown", "Chtimes", "Symlink"}
FsRead == {"ReadDirRoot", "ReadDirSub", "Stat", "ReadFile", "ReadEmpty", "ReadLink", "Label"}
DkMut  == {"Partition", "WritePartitionContents", "CreateFilesystem", "CreateExt4", "CreateFat16"}   \* CreateFilesystem: FAT32
DkRead == {"GetPartitionTable", "ReadPartitionContents", "GetFilesystemAndList"}
\* fat16x: a FAT16 volume on which an empty file has the form other tools give it (size 0, first cluster 0)
FsObjs == {"fat12", "fat16", "fat32", "fat16x", "ext4", "iso", "squashfs"}
\* gptbad: the primary GPT array fails its CRC, the backup is intact (reads must not "repair" it)
\* mbrshort: the image is shorter than the table says (partition 2 reaches past its end): nothing may grow it
DkObjs == {"gpt", "mbr", "gptbad", "mbrshort"}
Objs   == FsObjs \cup DkObjs
\* rofile: file.New(f, true) over a real *os.File whose descriptor WOULD allow writing (Sys() hands it out)
Routes == {"robackend", "nowritable", "ropath", "rofile", "rw"}
\* a finalized image is read-only on every route, "rw" included
IsRO(o, r) == r # "rw" \/ o \in {"iso", "squashfs"}
Muts(o)  == IF o \in FsObjs THEN FsMut ELSE DkMut
Reads(o) == IF o \in FsObjs THEN FsRead ELSE DkRead

VARIABLES obj, route, img, view, hist, res
vars == <<obj, route, img, view, hist, res>>
Init == obj \in Objs /\ route \in Routes /\ img = 0 /\ view = 0 /\ hist = <<>> /\ res = "ok"
Mut(op) == /\ op \in Muts(obj)
           /\ hist' = Append(hist, op)
           /\ IF IsRO(obj, route)
                THEN res' = "err" /\ UNCHANGED <<img, view>>
                ELSE \/ res' = "ok" /\ img' = img + 1 /\ view' = view + 1
                     \/ res' = "err" /\ UNCHANGED <<img, view>>
           /\ UNCHANGED <<obj, route>>
Rd(op) == /\ op \in Reads(obj)
          /\ hist' = Append(hist, op)
          /\ res' \in {"ok", "err"}
          /\ UNCHANGED <<obj, route, img, view>>
Next == \E op \in Muts(obj) \cup Reads(obj) : Mut(op) \/ Rd(op)
Spec == Init /\ [][Next]_vars
\* the properties, on the model
ROFrozen   == [][IsRO(obj, route) => img' = img /\ view' = view]_vars
ReadsPure  == [][(\E op \in Reads(obj) : hist' = Append(hist, op)) => img' = img /\ view' = view]_vars
RORefuses  == [][(IsRO(obj, route) /\ \E op \in Muts(obj) : hist' = Append(hist, op)) => res' = "err"]_vars

\* ---- predicates over one recorded step ----
\* ev: obj, route, op, res ("ok"/"err"/"panic"), changed (some byte of the image differs from
\*   before the call), writes (WriteAt attempts that reached the device during the call),
\*   viewsame (the tree / table projected through the live object equals the projection before the call)
StepOK(ev) ==
    /\ ev.res \in {"ok", "err"}
    /\ (ev.op \in Reads(ev.obj) => ~ev.changed /\ ev.writes = 0 /\ ev.viewsame)
    /\ (ev.op \in Muts(ev.obj) /\ IsRO(ev.obj, ev.route) => ev.res = "err" /\ ~ev.changed /\ ev.viewsame)
===============================================================================
