-------------------------------- MODULE ReadOnly_Gen --------------------------------
(* every call sequence of length 1..D for every (object, route)                      *)
EXTENDS ReadOnly, Json
CONSTANT D
GNext == Len(hist) < D /\ Next
GSpec == Init /\ [][GNext]_vars
Emit == Len(hist) >= 1 => PrintT(<<"BEH", ToJson([obj |-> obj, route |-> route, ops |-> hist])>>)
VIEW_ == <<obj, route, hist>>
===============================================================================
