SPECIFICATION Spec
CONSTANTS
  Names = {"a", "lost+found"}
  Contents = {1, 2}
PROPERTIES P_CopyThenEqual P_MutationSeen
CHECK_DEADLOCK FALSE
