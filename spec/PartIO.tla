--------------------------------- MODULE PartIO ---------------------------------
(* C13 - partition contents are streamed to and from exactly the partition.    *)
(* The geometry space (start and size classes that cross 2^32 bytes and 2^32    *)
(* sectors, logical and physical sector sizes, reader length and chunking) is   *)
(* enumerated by TLC; the harness executes Disk.WritePartitionContents,         *)
(* Disk.ReadPartitionContents and sync.CopyPartitionRaw on a sparse in-memory   *)
(* disk with a guard pattern around the partitions and records what happened;   *)
(* the postconditions below judge each event.  Byte counts are decimal strings. *)
EXTENDS Integers, Sequences, FiniteSets, TLC
Dims == [kind  : {"gpt", "mbr"},
         start : {"low", "s2048", "s2p23m1", "s2p23", "s2p23p1", "s2p32m1"},
         size  : {"z1", "z3", "z9", "z2048"},     \* z9: larger than one 4096-byte physical sector, not a multiple of it
         lss   : {"512", "4096"},
         pss   : {"512", "4096"},
         rlen  : {"zero", "minus1", "exact", "plus1"},
         chunk : {"whole", "one", "c513", "pssp1", "eofdata", "seeked"},      \* eofdata: pieces of 512 bytes, the last one returned TOGETHER with io.EOF; seeked: an io.ReadSeeker positioned behind a header it has already supplied
         \* what is streamed over what: a non-zero pattern, all zeroes, or a pattern whose odd physical
         \* sectors are zero - always onto a partition that already holds other non-zero bytes
         data  : {"pat", "zero", "holes"},
         \* retable = "replace": after the partitions have been looked up once, partition 1 of the SAME table
         \* object is replaced by a new entry 4 sectors further on and the table is applied again; contents
         \* must then go to and come from the partition's new place
         retable : {"no", "replace"}]
Base == [kind |-> "gpt", start |-> "s2048", size |-> "z2048", lss |-> "512", pss |-> "512", rlen |-> "exact", chunk |-> "whole", data |-> "pat", retable |-> "no"]
Deviations(t) == Cardinality({f \in DOMAIN Base : t[f] # Base[f]})

\* WritePartitionContents: stores the reader's bytes at the partition's own offset, touches
\* nothing else, and succeeds iff exactly the partition's size was supplied.
P_C13_Write(ev) ==
    /\ ev.w.res # "panic"
    /\ ev.w.within /\ ev.w.outside = 0
    /\ (ev.w.res = "ok") <=> (ev.shape.rlen = "exact")
    /\ ev.shape.rlen \in {"zero", "minus1", "exact"} => ev.w.stored      \* the bytes supplied are where they belong
    /\ ev.w.res = "ok" => ev.w.n = ev.psize
\* ReadPartitionContents: exactly the partition's bytes, no more and no fewer.
P_C13_Read(ev) == /\ ev.r.res = "ok" /\ ev.r.n = ev.psize /\ ev.r.exact /\ ev.r.writes = 0
\* CopyPartitionRaw (target at least as large as the source): leading bytes of the target
\* equal the source partition, nothing outside the target changes.
P_C13_Copy(ev) == /\ ev.copy.res = "ok" /\ ev.copy.lead /\ ev.copy.outside = 0
P_C13(ev) == P_C13_Write(ev) /\ P_C13_Read(ev) /\ P_C13_Copy(ev)
===============================================================================
