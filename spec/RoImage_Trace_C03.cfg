SPECIFICATION TSpec
CONSTANTS
  Prop = "C03"
  Paths = {"a"}
CONSTRAINT HW
POSTCONDITION Accepted
CHECK_DEADLOCK FALSE
