------------------------------- MODULE Corrupt_Trace -------------------------------
EXTENDS Corrupt, Json
VARIABLE l
Trace == ndJsonDeserialize("trace.ndjson")
Ev == Trace[l]
TInit == l = 1 /\ TLCSet(1, 0)
TStep == /\ l <= Len(Trace)
         /\ (IF P_C18(Ev) THEN TRUE ELSE PrintT(<<"MISMATCH", l, Ev.n>>))
         /\ l' = l + 1
TSpec == TInit /\ [][TStep]_l
HW == TLCSet(1, IF l > TLCGet(1) THEN l ELSE TLCGet(1))
Accepted == IF TLCGet(1) = Len(Trace) + 1 THEN TRUE ELSE Print(<<"REJECTED", TLCGet(1)>>, FALSE)
===============================================================================
