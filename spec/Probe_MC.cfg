SPECIFICATION Spec
INVARIANT P_C12_Model
CHECK_DEADLOCK FALSE
