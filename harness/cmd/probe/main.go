package main

import (
	"fmt"
	"sort"

	"github.com/diskfs/go-diskfs/filesystem/iso9660"

	"verif/harness/internal/fsx"
)

func main() {
	var es []fsx.Entry
	for _, dn := range []string{"v1.0", "v1.1", "v1.2", "conf.d", "conf.bak", "pkg", "pkg.old", "a.b.c", "a.b.d"} {
		es = append(es, fsx.Entry{Path: dn, Dir: true}, fsx.Entry{Path: dn + "/file one.txt", Data: []byte(dn)}, fsx.Entry{Path: dn + "/inner.d", Dir: true})
	}
	for _, fn := range []string{"data.1", "data.2", "data.10", "readme", "readme.txt"} {
		es = append(es, fsx.Entry{Path: fn, Data: []byte(fn)})
	}
	v, err := fsx.BuildImage("iso", es, fsx.Opt{Size: 4 << 20, IsoOpts: &iso9660.FinalizeOptions{}})
	if err != nil {
		panic(err)
	}
	w, err := fsx.Walk(v.FS, 1<<20)
	fmt.Println("walk err:", err)
	var ps []string
	for p, n := range w {
		ps = append(ps, fmt.Sprintf("%-30s %s %q %s", p, n.Kind, string(n.Data), n.Err))
	}
	sort.Strings(ps)
	for _, p := range ps {
		fmt.Println(p)
	}
}
