package main

import (
	"fmt"
	"sort"

	"github.com/diskfs/go-diskfs/filesystem/iso9660"

	"verif/harness/internal/fsx"
)

func main() {
	var es []fsx.Entry
	p := ""
	for i := 1; i <= 3; i++ {
		if p == "" {
			p = fmt.Sprintf("Some Directory %d", i)
		} else {
			p += fmt.Sprintf("/Some Directory %d", i)
		}
		es = append(es, fsx.Entry{Path: p, Dir: true})
	}
	es = append(es, fsx.Entry{Path: p + "/file one.txt", Data: []byte("x")})
	v, err := fsx.BuildImage("iso", es, fsx.Opt{Size: 4 << 20, IsoOpts: &iso9660.FinalizeOptions{Joliet: true}})
	if err != nil {
		panic(err)
	}
	ents, err := v.FS.ReadDir(".")
	fmt.Println("root:", len(ents), err)
	w, err := fsx.Walk(v.FS, 1<<20)
	fmt.Println("walk err:", err)
	var ps []string
	for p, n := range w {
		ps = append(ps, fmt.Sprintf("%-30s %s %q %s", p, n.Kind, string(n.Data), n.Err))
	}
	sort.Strings(ps)
	for _, p := range ps {
		fmt.Println(p)
	}
}
