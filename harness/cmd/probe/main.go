package main

import (
	"fmt"
	"os"
	"sort"

	"github.com/diskfs/go-diskfs/filesystem/iso9660"

	"verif/harness/internal/fsx"
	"verif/harness/internal/memdev"
	"verif/harness/internal/rawiso"
)

func main() {
	rr := os.Args[1] == "rr"
	deep := os.Args[2] == "deep"
	n := 9
	var es []fsx.Entry
	p := ""
	for i := 1; i <= n; i++ {
		if p == "" {
			p = fmt.Sprintf("Some Directory %d", i)
		} else {
			p += fmt.Sprintf("/Some Directory %d", i)
		}
		es = append(es, fsx.Entry{Path: p, Dir: true})
	}
	es = append(es, fsx.Entry{Path: p + "/leaf file.txt", Data: []byte("leaf")}, fsx.Entry{Path: "Some Directory 1/x.tar.gz", Data: []byte("xx")}, fsx.Entry{Path: "Some Directory 2", Dir: true}, fsx.Entry{Path: "Some Directory 2/y.y", Data: []byte("y")})
	d := memdev.New(64 << 20)
	v, err := fsx.BuildImageOn("iso", d, es, fsx.Opt{Size: 64 << 20, Sector: 2048, IsoOpts: &iso9660.FinalizeOptions{RockRidge: rr, DeepDirectories: deep}})
	fmt.Println("build err:", err)
	if err != nil {
		return
	}
	w, err := fsx.Walk(v.FS, 1<<20)
	fmt.Println("walk err:", err)
	var ps []string
	for p, n := range w {
		ps = append(ps, p+" ["+n.Kind+"]")
	}
	sort.Strings(ps)
	for _, p := range ps {
		fmt.Println("  LIB", p)
	}
	iso, err := rawiso.ParseISO(d, 0, 64<<20, 2048)
	fmt.Println("raw err:", err)
	if iso != nil {
		for _, e := range iso.Entries {
			fmt.Printf("  RAW %s dir=%v lba=%d size=%d flags=%x\n", e.Path, e.IsDir, e.LBA, e.Size, e.Flags)
		}
		fmt.Println("  problems:", iso.Problems)
	}
}
