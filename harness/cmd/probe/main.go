package main

import (
	"fmt"

	"github.com/diskfs/go-diskfs/filesystem/squashfs"

	"verif/harness/internal/fsx"
	"verif/harness/internal/memdev"
)

func main() {
	var es []fsx.Entry
	for n := 40; n <= 75; n++ {
		dn := fmt.Sprintf("k-%02d", n)
		es = append(es, fsx.Entry{Path: dn, Dir: true})
		for i := 0; i < n; i++ {
			es = append(es, fsx.Entry{Path: dn + "/" + fmt.Sprintf("f%04d.txt", i), Data: []byte{byte(n), byte(i)}})
		}
	}
	for _, bs := range []int64{4096, 131072, 1 << 20} {
		d := memdev.New(1 << 30)
		v, err := fsx.BuildImageOn("squashfs", d, es, fsx.Opt{Size: 1 << 30, SquashBlock: bs, SquashOpts: &squashfs.FinalizeOptions{Compression: &squashfs.CompressorGzip{}}})
		fmt.Println("bs", bs, "build err:", err)
		if err != nil {
			continue
		}
		w, err := fsx.Walk(v.FS, 1<<20)
		fmt.Println("  walk entries", len(w), "err:", err)
	}
}
