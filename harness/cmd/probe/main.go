package main

import (
	"fmt"
	"os"

	"verif/harness/internal/fsx"
)

func main() {
	os.Setenv("SOURCE_DATE_EPOCH", os.Args[1])
	for _, k := range []string{"fat12"} {
		sz := map[string]int64{"fat12": 8192, "fat16": 5 << 20, "fat32": 51200}[k]
		v, _ := fsx.CreateMutable(k, fsx.Opt{Size: sz, Repro: true, Label: "VERIF"})
		b := v.Dev.Bytes(0, sz)
		fmt.Printf("%s:", k)
		for i := 0; i < len(b); i++ {
			if b[i] != 0 {
				fmt.Printf(" %x=%02x", i, b[i])
			}
		}
		fmt.Println()
	}
}
