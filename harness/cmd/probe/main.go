package main

import (
	"fmt"

	"github.com/diskfs/go-diskfs/filesystem/iso9660"

	"verif/harness/internal/fsx"
	"verif/harness/internal/rawiso"
)

func main() {
	v, err := fsx.BuildImage("iso", []fsx.Entry{{Path: "a.txt", Data: fsx.Content(1, 700)}, {Path: "l1", Link: "a.txt"}, {Path: "l2", Link: "/abs/target/which/is/longer"}}, fsx.Opt{Size: 2 << 20, IsoOpts: &iso9660.FinalizeOptions{RockRidge: true}})
	if err != nil {
		panic(err)
	}
	iso, err := rawiso.ParseISO(v.Dev, 0, 2<<20, 2048)
	fmt.Println(err)
	for _, e := range iso.Entries {
		fmt.Printf("%q dir=%v lba=%d size=%d\n", e.Path, e.IsDir, e.LBA, e.Size)
	}
	fmt.Println(iso.Problems)
}
