package main

import (
	"fmt"

	"verif/harness/internal/fsx"
	"verif/harness/internal/rawfat"
)

func main() {
	for _, c := range []struct {
		k string
		s int64
	}{{"fat12", 8192}, {"fat12", 1474560}, {"fat12", 4 << 20}, {"fat16", 2 << 20}, {"fat16", 3 << 20}, {"fat16", 5 << 20}, {"fat16", 32 << 20}, {"fat32", 50 * 1024}, {"fat32", 100 * 512}, {"fat32", 1 << 20}, {"fat32", 34 << 20}, {"fat32", 300 << 20}} {
		v, err := fsx.CreateMutable(c.k, fsx.Opt{Size: c.s})
		if err != nil {
			fmt.Println(c.k, c.s, "ERR", err)
			continue
		}
		r, err := rawfat.Parse(v.Dev, 0, c.s)
		if err != nil {
			fmt.Println(c.k, c.s, "block", v.Block, "RAWERR", err)
			continue
		}
		free := 0
		for i := 2; i < len(r.FAT); i++ {
			if r.FAT[i] == 0 {
				free++
			}
		}
		fmt.Println(c.k, c.s, "block", v.Block, "rawtype", r.Type, "ncl", r.DataClusters, "free", free, "fatsec", r.FATSectors, "rootent", r.RootEntries, "problems", r.Problems, "beyond", r.Beyond)
	}
}
