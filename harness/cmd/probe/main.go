package main

import (
	"fmt"
	"sort"

	"github.com/diskfs/go-diskfs/filesystem/iso9660"

	"verif/harness/internal/fsx"
	"verif/harness/internal/memdev"
)

func main() {
	es := []fsx.Entry{{Path: ".DS_Store", Data: []byte("a")}, {Path: ".hidden.txt", Data: []byte("b")}, {Path: "normal.txt", Data: []byte("c")}, {Path: "DIR/.DS_Store", Data: []byte("d")}}
	for _, rr := range []bool{true, false} {
		d := memdev.New(64 << 20)
		v, err := fsx.BuildImageOn("iso", d, es, fsx.Opt{Size: 64 << 20, Sector: 2048, IsoOpts: &iso9660.FinalizeOptions{RockRidge: rr, Joliet: !rr}})
		fmt.Println("rr", rr, "build err:", err)
		if err != nil {
			continue
		}
		w, _ := fsx.Walk(v.FS, 1<<20)
		var ps []string
		for p := range w {
			ps = append(ps, p)
		}
		sort.Strings(ps)
		fmt.Println(ps)
	}
}
