// vcheck runs one property check: vcheck <Cxx> <quick|thorough> [--replay file]
package main

import (
	"fmt"
	"os"

	"io"
	"log"

	"github.com/sirupsen/logrus"

	"verif/harness/internal/core"
	"verif/harness/internal/props"
)

type entry struct {
	level string
	run   func(*core.Ctx)
}

var checks = map[string]entry{
	"C01": {"model_checking", props.C01},
	"C02": {"model_checking", props.C02},
	"C03": {"model_checking", props.C03},
	"C04": {"model_checking", props.C04},
	"C05": {"model_checking", props.C05},
	"C06": {"model_checking", props.C06},
	"C07": {"model_checking", props.C07},
	"C08": {"model_checking", props.C08},
	"C09": {"model_checking", props.C09},
	"C10": {"model_checking", props.C10},
	"C11": {"model_checking", props.C11},
	"C12": {"model_checking", props.C12},
	"C13": {"model_checking", props.C13},
	"C14": {"model_checking", props.C14},
	"C15": {"fault_enumeration", props.C15},
	"C16": {"model_checking", props.C16},
	"C17": {"model_checking", props.C17},
	"C18": {"fault_enumeration", props.C18},
	"C19": {"model_checking", props.C19},
	"C20": {"model_checking", props.C20},
	// development entry: the composition behaviours alone, every clause reported (not registered in MANIFEST.json)
	"DISK": {"model_checking", props.DiskAll},
	"EXTPROBE": {"model_checking", props.ExtProbe},
	"PTFOREIGN": {"model_checking", props.PtForeign},
	"C12S4K": {"model_checking", props.C12Sector4k},
	"C10MAX": {"model_checking", props.C10MaxExtent},
}

func main() {
	if len(os.Args) < 3 {
		fmt.Fprintln(os.Stderr, "usage: vcheck <Cxx> <quick|thorough>")
		os.Exit(2)
	}
	if os.Args[1] == "--child" {
		os.Exit(props.Child(os.Args[2:]))
	}
	logrus.SetOutput(io.Discard)
	log.SetOutput(io.Discard)
	id, tier := os.Args[1], os.Args[2]
	e, ok := checks[id]
	if !ok {
		fmt.Fprintf(os.Stderr, "unknown check %s\n", id)
		os.Exit(2)
	}
	if tier != "quick" && tier != "thorough" {
		tier = "quick"
	}
	c := core.NewCtx(id, tier, e.level)
	if p := core.Catch(func() { e.run(c) }); p != "" {
		c.Broken("harness panic: %s", p)
	}
	os.Exit(c.Finish())
}
