// Package fsx builds real go-diskfs filesystems of every supported type on a memdev
// and offers the API-level projections (walks, full reads) shared by the drivers.
package fsx

import (
	"sync"
	"errors"
	"fmt"
	"io"
	iofs "io/fs"
	"os"
	"path"
	"sort"
	"strings"

	"github.com/diskfs/go-diskfs/backend"
	"github.com/diskfs/go-diskfs/backend/file"
	"github.com/diskfs/go-diskfs/filesystem"
	"github.com/diskfs/go-diskfs/filesystem/ext4"
	"github.com/diskfs/go-diskfs/filesystem/fat12"
	"github.com/diskfs/go-diskfs/filesystem/fat16"
	"github.com/diskfs/go-diskfs/filesystem/fat32"
	"github.com/diskfs/go-diskfs/filesystem/iso9660"
	"github.com/diskfs/go-diskfs/filesystem/squashfs"

	"verif/harness/internal/memdev"
)

var Kinds = []string{"fat12", "fat16", "fat32", "ext4", "iso", "squashfs"}

type Vol struct {
	Kind    string
	Dev     *memdev.Dev
	Backend backend.Storage
	FS      filesystem.FileSystem
	Start   int64
	Size    int64
	Sector  int64 // logical sector / blocksize argument given to Create
	Block   int64 // allocation unit: FAT cluster, ext4 block, ISO sector, squashfs data block
}

type Opt struct {
	Start      int64
	Size       int64 // 0 => per-kind default
	Sector     int64 // 0 => per-kind default
	DevSize    int64 // 0 => Start+Size+guard
	Pattern    bool
	Label      string
	Repro      bool
	Ext4       *ext4.Params
	IsoOpts    *iso9660.FinalizeOptions
	SquashOpts *squashfs.FinalizeOptions
	SquashBlock int64 // squashfs data block size (blocksize argument of Create); 0 => 4096
}

func DefaultSize(kind string) int64 {
	switch kind {
	case "fat12":
		return 1474560
	case "fat16":
		return 32 << 20
	case "fat32":
		return 34 << 20
	case "ext4":
		return 20 << 20
	case "iso", "squashfs":
		return 16 << 20
	}
	return 0
}

// CreateMutable creates an empty FAT or ext4 volume.
func CreateMutable(kind string, o Opt) (*Vol, error) {
	if o.Size == 0 {
		o.Size = DefaultSize(kind)
	}
	devSize := o.DevSize
	if devSize == 0 {
		devSize = o.Start + o.Size + 1<<20
	}
	var d *memdev.Dev
	if o.Pattern {
		d = memdev.NewPattern(devSize)
	} else {
		d = memdev.New(devSize)
	}
	return CreateOn(kind, d, o)
}

func CreateOn(kind string, d *memdev.Dev, o Opt) (v *Vol, err error) {
	if o.Size == 0 {
		o.Size = DefaultSize(kind)
	}
	b := file.New(d, false)
	v = &Vol{Kind: kind, Dev: d, Backend: b, Start: o.Start, Size: o.Size, Sector: o.Sector}
	if p := Catch(func() {
		switch kind {
		case "fat12":
			var f *fat12.FileSystem
			f, err = fat12.Create(b, o.Size, o.Start, o.Sector, o.Label, o.Repro)
			if err == nil {
				v.FS, v.Block = f, int64(f.BytesPerCluster())
			}
		case "fat16":
			var f *fat16.FileSystem
			f, err = fat16.Create(b, o.Size, o.Start, o.Sector, o.Label, o.Repro)
			if err == nil {
				v.FS, v.Block = f, int64(f.BytesPerCluster())
			}
		case "fat32":
			var f *fat32.FileSystem
			f, err = fat32.Create(b, o.Size, o.Start, o.Sector, o.Label, o.Repro)
			if err == nil {
				v.FS, v.Block = f, int64(f.BytesPerCluster())
			}
		case "ext4":
			var f *ext4.FileSystem
			p := o.Ext4
			if p == nil {
				p = &ext4.Params{}
			}
			f, err = ext4.Create(b, o.Size, o.Start, o.Sector, p)
			if err == nil {
				v.FS = f
				spb := int64(p.SectorsPerBlock)
				if spb == 0 {
					spb = 2
				}
				v.Block = spb * 512
			}
		default:
			err = fmt.Errorf("CreateOn: not a mutable kind %q", kind)
		}
	}); p != "" {
		return nil, fmt.Errorf("panic in %s.Create: %s", kind, p)
	}
	if err != nil {
		return nil, err
	}
	return v, nil
}

// Reopen reads the volume again from the device bytes alone.
func (v *Vol) Reopen() (fs filesystem.FileSystem, err error) {
	return OpenKind(v.Kind, v.Dev, v.Size, v.Start, v.Sector, false)
}

func OpenKind(kind string, d *memdev.Dev, size, start, sector int64, ro bool) (fs filesystem.FileSystem, err error) {
	return OpenBackend(kind, file.New(d, ro), size, start, sector)
}

// OpenBackend opens a filesystem of the given kind over any backend.
func OpenBackend(kind string, b backend.Storage, size, start, sector int64) (fs filesystem.FileSystem, err error) {
	if p := Catch(func() {
		switch kind {
		case "fat12":
			fs, err = nilIfErr(fat12.Read(b, size, start, sector))
		case "fat16":
			fs, err = nilIfErr(fat16.Read(b, size, start, sector))
		case "fat32":
			fs, err = nilIfErr(fat32.Read(b, size, start, sector))
		case "ext4":
			fs, err = nilIfErr(ext4.Read(b, size, start, sector))
		case "iso":
			fs, err = nilIfErr(iso9660.Read(b, size, start, sector))
		case "squashfs":
			fs, err = nilIfErr(squashfs.Read(b, size, start, sector))
		default:
			err = fmt.Errorf("unknown kind %q", kind)
		}
	}); p != "" {
		return nil, fmt.Errorf("panic in %s.Read: %s", kind, p)
	}
	return fs, err
}

func nilIfErr[T filesystem.FileSystem](f T, err error) (filesystem.FileSystem, error) {
	if err != nil {
		return nil, err
	}
	return f, nil
}

// Entry of a source tree for build-once filesystems.
type Entry struct {
	Path   string // slash separated, no leading slash
	Dir    bool
	Link   string // symlink target when non-empty
	Data   []byte
	Mode   os.FileMode // 0 => default
}

// BuildImage creates an ISO9660 or squashfs image from entries (through the library's
// workspace API), finalizes it on a memdev and returns the volume re-opened from bytes.
func BuildImage(kind string, entries []Entry, o Opt) (*Vol, error) {
	if o.Size == 0 {
		o.Size = DefaultSize(kind)
	}
	devSize := o.DevSize
	if devSize == 0 {
		devSize = o.Start + o.Size + 1<<20
	}
	var d *memdev.Dev
	if o.Pattern {
		d = memdev.NewPattern(devSize)
	} else {
		d = memdev.New(devSize)
	}
	return BuildImageOn(kind, d, entries, o)
}

func BuildImageOn(kind string, d *memdev.Dev, entries []Entry, o Opt) (v *Vol, err error) {
	if o.Size == 0 {
		o.Size = DefaultSize(kind)
	}
	b := file.New(d, false)
	v = &Vol{Kind: kind, Dev: d, Backend: b, Start: o.Start, Size: o.Size, Sector: o.Sector}
	var wfs filesystem.FileSystem
	var ws string
	switch kind {
	case "iso":
		if v.Sector == 0 {
			v.Sector = 2048
		}
		var f *iso9660.FileSystem
		f, err = iso9660.Create(b, o.Size, o.Start, v.Sector, "")
		if err != nil {
			return nil, err
		}
		wfs, ws = f, f.Workspace()
		v.Block = v.Sector
	case "squashfs":
		bs := o.SquashBlock
		if bs == 0 {
			bs = 4096
		}
		var f *squashfs.FileSystem
		f, err = squashfs.Create(b, o.Size, o.Start, bs)
		if err != nil {
			return nil, err
		}
		wfs, ws = f, f.Workspace()
		v.Block = bs
		v.Sector = bs
	default:
		return nil, fmt.Errorf("BuildImage: kind %q", kind)
	}
	defer func() {
		if ws != "" {
			os.RemoveAll(ws)
		}
	}()
	if err = Populate(wfs, entries); err != nil {
		return nil, fmt.Errorf("populate workspace: %w", err)
	}
	// modes on workspace files
	for _, e := range entries {
		if e.Mode != 0 && e.Link == "" {
			os.Chmod(path.Join(ws, e.Path), e.Mode.Perm()|e.Mode&(os.ModeSetuid|os.ModeSetgid|os.ModeSticky))
		}
	}
	var ferr error
	if p := Catch(func() {
		switch f := wfs.(type) {
		case *iso9660.FileSystem:
			opts := iso9660.FinalizeOptions{}
			if o.IsoOpts != nil {
				opts = *o.IsoOpts
			}
			ferr = f.Finalize(opts)
		case *squashfs.FileSystem:
			opts := squashfs.FinalizeOptions{}
			if o.SquashOpts != nil {
				opts = *o.SquashOpts
			}
			ferr = f.Finalize(opts)
		}
	}); p != "" {
		return nil, fmt.Errorf("panic in Finalize: %s", p)
	}
	if ferr != nil {
		return nil, fmt.Errorf("finalize: %w", ferr)
	}
	v.FS, err = OpenKind(kind, d, o.Size, o.Start, v.Sector, false)
	if err != nil {
		return nil, fmt.Errorf("re-open after finalize: %w", err)
	}
	return v, nil
}

// Populate creates entries through the filesystem API (Mkdir, OpenFile+Write, Symlink).
func Populate(fs filesystem.FileSystem, entries []Entry) error {
	es := append([]Entry(nil), entries...)
	sort.SliceStable(es, func(i, j int) bool { return es[i].Path < es[j].Path })
	for _, e := range es {
		if dir := path.Dir(e.Path); dir != "." && dir != "/" {
			if err := fs.Mkdir(dir); err != nil {
				return fmt.Errorf("mkdir %s: %w", dir, err)
			}
		}
		switch {
		case e.Dir:
			if err := fs.Mkdir(e.Path); err != nil {
				return fmt.Errorf("mkdir %s: %w", e.Path, err)
			}
		case e.Link != "":
			if w, ok := fs.(interface{ Workspace() string }); ok && w.Workspace() != "" {
				// iso9660 / squashfs do not implement Symlink: links are placed in the workspace
				if err := os.Symlink(e.Link, path.Join(w.Workspace(), e.Path)); err != nil {
					return fmt.Errorf("symlink %s: %w", e.Path, err)
				}
			} else if err := fs.Symlink(e.Link, e.Path); err != nil {
				return fmt.Errorf("symlink %s: %w", e.Path, err)
			}
		default:
			if err := WriteFile(fs, e.Path, e.Data); err != nil {
				return err
			}
		}
	}
	return nil
}

func WriteFile(fs filesystem.FileSystem, p string, data []byte) error {
	f, err := fs.OpenFile(p, os.O_CREATE|os.O_RDWR|os.O_TRUNC)
	if err != nil {
		return fmt.Errorf("create %s: %w", p, err)
	}
	if len(data) > 0 {
		n, err := f.Write(data)
		if err != nil {
			f.Close()
			return fmt.Errorf("write %s: %w", p, err)
		}
		if n != len(data) {
			f.Close()
			return fmt.Errorf("short write %s: %d of %d", p, n, len(data))
		}
	}
	return f.Close()
}

// ReadAll reads r to the end with a bound on iterations, so that a handle that returns
// (0, nil) forever or never reports EOF does not hang the harness.
var readBufPool = sync.Pool{New: func() any { b := make([]byte, 32*1024); return &b }}

func ReadAll(r io.Reader, limit int64) ([]byte, error) {
	var out []byte
	bp := readBufPool.Get().(*[]byte)
	defer readBufPool.Put(bp)
	buf := *bp
	zero := 0
	for {
		n, err := r.Read(buf)
		out = append(out, buf[:n]...)
		if int64(len(out)) > limit {
			return out, errors.New("fsx: read more than limit (no EOF)")
		}
		if err == io.EOF {
			return out, nil
		}
		if err != nil {
			return out, err
		}
		if n == 0 {
			zero++
			if zero > 100 {
				return out, errors.New("fsx: Read returns (0,nil) repeatedly")
			}
		}
	}
}

// Node is the API projection of one path.
type Node struct {
	Kind string // "dir" "file" "link" "other"
	Size int64
	Data []byte
	Err  string // error reading this node
	Link string
}

// Walk projects the whole tree through ReadDir/Open/Read.  Names "." and ".." and
// lost+found are filtered by rule.
func Walk(fs filesystem.FileSystem, limit int64) (tree map[string]*Node, err error) {
	return WalkSkip(fs, limit, nil)
}

// WalkSkip is Walk, but does not read the content of files for which skip returns true.
func WalkSkip(fs filesystem.FileSystem, limit int64, skip func(path string) bool) (tree map[string]*Node, err error) {
	tree = map[string]*Node{}
	var rec func(dir string, depth int) error
	rec = func(dir string, depth int) error {
		if depth > 40 {
			return errors.New("fsx: directory depth > 40")
		}
		ents, err := fs.ReadDir(dir)
		if err != nil {
			return fmt.Errorf("ReadDir(%q): %w", dir, err)
		}
		for _, e := range ents {
			nm := e.Name()
			if nm == "." || nm == ".." || nm == "lost+found" {
				continue
			}
			p := nm
			if dir != "." && dir != "/" && dir != "" {
				p = dir + "/" + nm
			}
			if _, dup := tree[p]; dup {
				return fmt.Errorf("duplicate entry %q in listing of %q", nm, dir)
			}
			n := &Node{}
			tree[p] = n
			switch {
			case e.IsDir():
				n.Kind = "dir"
				if err := rec(p, depth+1); err != nil {
					return err
				}
			case e.Type()&iofs.ModeSymlink != 0:
				n.Kind = "link"
				if rl, ok := fs.(interface{ ReadLink(string) (string, error) }); ok {
					t, err := rl.ReadLink(p)
					if err != nil {
						n.Err = "readlink: " + err.Error()
					}
					n.Link = t
				} else if info, err := e.Info(); err == nil {
					// iso9660 / squashfs expose the target through FileInfo.Sys()
					switch st := info.Sys().(type) {
					case *iso9660.StatT:
						n.Link = st.LinkTarget
					case *squashfs.StatT:
						n.Link = st.LinkTarget
					}
				}
			case e.Type().IsRegular():
				n.Kind = "file"
				if info, err := e.Info(); err == nil {
					n.Size = info.Size()
				}
				if skip != nil && skip(p) {
					continue
				}
				f, err := fs.OpenFile(p, os.O_RDONLY)
				if err != nil {
					n.Err = "open: " + err.Error()
					continue
				}
				data, err := ReadAll(f, limit)
				f.Close()
				n.Data = data
				if err != nil {
					n.Err = "read: " + err.Error()
				}
			default:
				n.Kind = "other"
			}
		}
		return nil
	}
	if p := Catch(func() { err = rec(".", 0) }); p != "" {
		return tree, fmt.Errorf("panic during walk: %s", p)
	}
	return tree, err
}

func Catch(f func()) (panicked string) {
	defer func() {
		if r := recover(); r != nil {
			panicked = strings.TrimSpace(fmt.Sprint(r))
			if panicked == "" {
				panicked = "panic"
			}
		}
	}()
	f()
	return ""
}

// Content returns deterministic non-zero content of n bytes for a tag; byte i depends
// on the tag and on i so that any misplacement is visible.
func Content(tag int, n int) []byte {
	b := make([]byte, n)
	for i := range b {
		b[i] = ContentByte(tag, int64(i))
	}
	return b
}

func ContentByte(tag int, i int64) byte {
	x := uint64(i)*2654435761 + uint64(tag)*40503 + uint64(i>>8)*97
	return byte(x%251) + 1
}
