// Package memdev is a sparse in-memory block device that satisfies fs.File,
// io.ReaderAt, io.WriterAt, io.Seeker and Sync(), so that go-diskfs'
// backend/file.New drives its real rawBackend code path over it.  It observes
// every WriteAt / Sync (no source hook is needed), can hold writes volatile until
// Sync (write-back mode, used for crash states), and can be made read-only in a way
// that still records attempted writes.
package memdev

import (
	"bufio"
	"crypto/sha256"
	"encoding/binary"
	"errors"
	"fmt"
	"io"
	"io/fs"
	"os"
	"runtime"
	"sort"
	"sync"
	"time"
)

const pageSize = 4096

// Op is one entry of the device log.
type Op struct {
	Kind string // "w" write, "s" sync, "wfail" rejected write attempt
	Off  int64
	Len  int64
	Data []byte // only kept when KeepData is set
}

type Dev struct {
	mu       sync.Mutex
	size     int64
	pages    map[int64][]byte
	Pattern  bool // background (never written) bytes are a position-dependent non-zero pattern
	ReadOnly bool // WriteAt fails and is recorded
	KeepData bool // keep written payloads in the log (crash-state materialisation)
	Yield    bool // runtime.Gosched() inside ReadAt (schedule perturbation)
	FailOutside []Range // when non-nil, WriteAt outside these ranges is recorded in Outside (but still performed)
	Outside  []Range
	log      []Op
	pos      int64
	closed   bool
	Reads    int64
	ReadHook func(off int64, n int)
}

type Range struct{ Off, Len int64 }

func New(size int64) *Dev {
	return &Dev{size: size, pages: map[int64][]byte{}}
}

// NewPattern returns a device whose untouched bytes are a non-zero pattern.
func NewPattern(size int64) *Dev {
	d := New(size)
	d.Pattern = true
	return d
}

func PatByte(off int64) byte {
	b := byte((off*131 + off>>9*17 + 7) % 251)
	return b + 1 // 1..251, never zero
}

func (d *Dev) page(i int64, create bool) []byte {
	p, ok := d.pages[i]
	if ok || !create {
		return p
	}
	p = make([]byte, pageSize)
	if d.Pattern {
		base := i * pageSize
		for k := range p {
			p[k] = PatByte(base + int64(k))
		}
	}
	d.pages[i] = p
	return p
}

func (d *Dev) Size() int64 { return d.size }

// ---- fs.File ----
type info struct{ size int64 }

func (i info) Name() string       { return "memdev" }
func (i info) Size() int64        { return i.size }
func (i info) Mode() fs.FileMode  { return 0o644 }
func (i info) ModTime() time.Time { return time.Unix(0, 0) }
func (i info) IsDir() bool        { return false }
func (i info) Sys() any           { return nil }

func (d *Dev) Stat() (fs.FileInfo, error) { return info{d.size}, nil }
func (d *Dev) Close() error               { return nil }

func (d *Dev) Read(p []byte) (int, error) {
	d.mu.Lock()
	pos := d.pos
	d.mu.Unlock()
	n, err := d.ReadAt(p, pos)
	d.mu.Lock()
	d.pos += int64(n)
	d.mu.Unlock()
	return n, err
}

func (d *Dev) Seek(off int64, whence int) (int64, error) {
	d.mu.Lock()
	defer d.mu.Unlock()
	var t int64
	switch whence {
	case io.SeekStart:
		t = off
	case io.SeekCurrent:
		t = d.pos + off
	case io.SeekEnd:
		t = d.size + off
	default:
		return 0, errors.New("memdev: bad whence")
	}
	if t < 0 {
		return 0, errors.New("memdev: negative seek")
	}
	d.pos = t
	return t, nil
}

func (d *Dev) ReadAt(p []byte, off int64) (int, error) {
	if d.Yield {
		runtime.Gosched()
	}
	if h := d.ReadHook; h != nil {
		h(off, len(p))
	}
	d.mu.Lock()
	defer d.mu.Unlock()
	d.Reads++
	if off < 0 {
		return 0, errors.New("memdev: negative offset")
	}
	if off >= d.size {
		return 0, io.EOF
	}
	n := len(p)
	var err error
	if off+int64(n) > d.size {
		n = int(d.size - off)
		err = io.EOF
	}
	d.readLocked(p[:n], off)
	return n, err
}

func (d *Dev) readLocked(p []byte, off int64) {
	done := 0
	for done < len(p) {
		o := off + int64(done)
		pi := o / pageSize
		po := int(o % pageSize)
		k := pageSize - po
		if k > len(p)-done {
			k = len(p) - done
		}
		pg := d.page(pi, false)
		if pg == nil {
			if d.Pattern {
				for j := 0; j < k; j++ {
					p[done+j] = PatByte(o + int64(j))
				}
			} else {
				for j := 0; j < k; j++ {
					p[done+j] = 0
				}
			}
		} else {
			copy(p[done:done+k], pg[po:po+k])
		}
		done += k
	}
}

func (d *Dev) WriteAt(p []byte, off int64) (int, error) {
	d.mu.Lock()
	defer d.mu.Unlock()
	if d.ReadOnly {
		d.log = append(d.log, Op{Kind: "wfail", Off: off, Len: int64(len(p))})
		return 0, errors.New("memdev: device is read-only")
	}
	if off < 0 {
		return 0, errors.New("memdev: negative offset")
	}
	op := Op{Kind: "w", Off: off, Len: int64(len(p))}
	if d.KeepData {
		op.Data = append([]byte(nil), p...)
	}
	d.log = append(d.log, op)
	if d.FailOutside != nil && len(p) > 0 {
		d.noteOutside(off, int64(len(p)))
	}
	if off+int64(len(p)) > d.size {
		// a regular file would grow; record growth, keep the bytes
		d.size = off + int64(len(p))
	}
	d.writeLocked(p, off)
	return len(p), nil
}

func (d *Dev) noteOutside(off, n int64) {
	// subtract allowed ranges from [off,off+n)
	segs := []Range{{off, n}}
	for _, a := range d.FailOutside {
		var next []Range
		for _, s := range segs {
			s0, s1 := s.Off, s.Off+s.Len
			a0, a1 := a.Off, a.Off+a.Len
			if a1 <= s0 || a0 >= s1 {
				next = append(next, s)
				continue
			}
			if s0 < a0 {
				next = append(next, Range{s0, a0 - s0})
			}
			if a1 < s1 {
				next = append(next, Range{a1, s1 - a1})
			}
		}
		segs = next
	}
	d.Outside = append(d.Outside, segs...)
}

func (d *Dev) writeLocked(p []byte, off int64) {
	done := 0
	for done < len(p) {
		o := off + int64(done)
		pi := o / pageSize
		po := int(o % pageSize)
		k := pageSize - po
		if k > len(p)-done {
			k = len(p) - done
		}
		pg := d.page(pi, false)
		if pg == nil && d.isBackground(p[done:done+k], o) {
			done += k // writing what is already there: keep the device sparse
			continue
		}
		pg = d.page(pi, true)
		copy(pg[po:po+k], p[done:done+k])
		done += k
	}
}

func (d *Dev) isBackground(b []byte, off int64) bool {
	for i, x := range b {
		var want byte
		if d.Pattern {
			want = PatByte(off + int64(i))
		}
		if x != want {
			return false
		}
	}
	return true
}

func (d *Dev) Sync() error {
	d.mu.Lock()
	defer d.mu.Unlock()
	d.log = append(d.log, Op{Kind: "s"})
	return nil
}

// ---- observation ----

func (d *Dev) Mark() int {
	d.mu.Lock()
	defer d.mu.Unlock()
	return len(d.log)
}

func (d *Dev) Log() []Op {
	d.mu.Lock()
	defer d.mu.Unlock()
	return append([]Op(nil), d.log...)
}

func (d *Dev) Since(mark int) []Op {
	d.mu.Lock()
	defer d.mu.Unlock()
	return append([]Op(nil), d.log[mark:]...)
}

// Extents merges the successful writes of ops into sorted disjoint ranges.
func Extents(ops []Op) []Range {
	var rs []Range
	for _, o := range ops {
		if o.Kind == "w" && o.Len > 0 {
			rs = append(rs, Range{o.Off, o.Len})
		}
	}
	return Merge(rs)
}

func Merge(rs []Range) []Range {
	if len(rs) == 0 {
		return nil
	}
	sort.Slice(rs, func(i, j int) bool { return rs[i].Off < rs[j].Off })
	out := []Range{rs[0]}
	for _, r := range rs[1:] {
		l := &out[len(out)-1]
		if r.Off <= l.Off+l.Len {
			if e := r.Off + r.Len; e > l.Off+l.Len {
				l.Len = e - l.Off
			}
		} else {
			out = append(out, r)
		}
	}
	return out
}

// WriteAttempts counts writes and failed write attempts in ops.
func WriteAttempts(ops []Op) int {
	n := 0
	for _, o := range ops {
		if o.Kind == "w" || o.Kind == "wfail" {
			n++
		}
	}
	return n
}

func (d *Dev) Bytes(off, n int64) []byte {
	d.mu.Lock()
	defer d.mu.Unlock()
	b := make([]byte, n)
	d.readLocked(b, off)
	return b
}

// SHA returns the SHA-256 of [off,off+n) (streamed page-wise; untouched pages are synthesised).
func (d *Dev) SHA(off, n int64) [32]byte {
	d.mu.Lock()
	defer d.mu.Unlock()
	h := sha256.New()
	buf := make([]byte, 1<<16)
	for n > 0 {
		k := int64(len(buf))
		if k > n {
			k = n
		}
		d.readLocked(buf[:k], off)
		h.Write(buf[:k])
		off += k
		n -= k
	}
	var out [32]byte
	copy(out[:], h.Sum(nil))
	return out
}

// Clone returns an independent copy of the device content (log not copied).
func (d *Dev) Clone() *Dev {
	d.mu.Lock()
	defer d.mu.Unlock()
	c := New(d.size)
	c.Pattern = d.Pattern
	for i, p := range d.pages {
		c.pages[i] = append([]byte(nil), p...)
	}
	return c
}

// TouchedPages lists page indices that were ever written (sorted).
func (d *Dev) TouchedPages() []int64 {
	d.mu.Lock()
	defer d.mu.Unlock()
	var out []int64
	for i := range d.pages {
		out = append(out, i)
	}
	sort.Slice(out, func(i, j int) bool { return out[i] < out[j] })
	return out
}

// DiffOutside returns the byte ranges outside [lo,hi) whose content differs from the
// background pattern / zero (only pages that were ever touched need inspection).
func (d *Dev) DiffOutside(lo, hi int64) []Range {
	d.mu.Lock()
	defer d.mu.Unlock()
	var rs []Range
	idx := make([]int64, 0, len(d.pages))
	for i := range d.pages {
		idx = append(idx, i)
	}
	sort.Slice(idx, func(i, j int) bool { return idx[i] < idx[j] })
	for _, i := range idx {
		pg := d.pages[i]
		base := i * pageSize
		if base >= lo && base+pageSize <= hi {
			continue
		}
		for k := 0; k < pageSize; k++ {
			o := base + int64(k)
			if o >= lo && o < hi {
				continue
			}
			var want byte
			if d.Pattern {
				want = PatByte(o)
			}
			if pg[k] != want {
				rs = append(rs, Range{o, 1})
			}
		}
	}
	return Merge(rs)
}

// SetSize truncates/extends the nominal size (content beyond is dropped lazily).
func (d *Dev) SetSize(n int64) {
	d.mu.Lock()
	defer d.mu.Unlock()
	d.size = n
}

// ResetLog clears the op log and outside list.
func (d *Dev) ResetLog() {
	d.mu.Lock()
	defer d.mu.Unlock()
	d.log = nil
	d.Outside = nil
}

// Save writes the touched pages to a file; Load restores a device from it (exact bytes,
// so that parent and child processes work on the same image).
func (d *Dev) Save(path string) error {
	d.mu.Lock()
	defer d.mu.Unlock()
	f, err := os.Create(path)
	if err != nil {
		return err
	}
	defer f.Close()
	w := bufio.NewWriter(f)
	hdr := make([]byte, 16)
	binary.LittleEndian.PutUint64(hdr[0:8], uint64(d.size))
	binary.LittleEndian.PutUint64(hdr[8:16], uint64(len(d.pages)))
	w.Write(hdr)
	for i, p := range d.pages {
		binary.LittleEndian.PutUint64(hdr[0:8], uint64(i))
		w.Write(hdr[0:8])
		w.Write(p)
	}
	return w.Flush()
}

func Load(path string) (*Dev, error) {
	b, err := os.ReadFile(path)
	if err != nil {
		return nil, err
	}
	if len(b) < 16 {
		return nil, errors.New("memdev: short image file")
	}
	d := New(int64(binary.LittleEndian.Uint64(b[0:8])))
	n := int(binary.LittleEndian.Uint64(b[8:16]))
	b = b[16:]
	for k := 0; k < n; k++ {
		if len(b) < 8+pageSize {
			return nil, errors.New("memdev: truncated image file")
		}
		i := int64(binary.LittleEndian.Uint64(b[0:8]))
		d.pages[i] = append([]byte(nil), b[8:8+pageSize]...)
		b = b[8+pageSize:]
	}
	return d, nil
}

// Poke overwrites bytes without logging (fault injection); Peek reads without counting.
func (d *Dev) Poke(off int64, p []byte) {
	d.mu.Lock()
	defer d.mu.Unlock()
	ro := d.ReadOnly
	d.ReadOnly = false
	d.writeLocked(p, off)
	d.ReadOnly = ro
}

// Digest returns a hex digest of the content of the given ranges that is cheap for sparse devices:
// only pages that were ever written and differ from the background take part (page offset + bytes), so
// rewriting a byte with the value it already had does not change the digest while any real change does.
func (d *Dev) Digest(rs ...Range) string {
	d.mu.Lock()
	defer d.mu.Unlock()
	idx := make([]int64, 0, len(d.pages))
	for i := range d.pages {
		idx = append(idx, i)
	}
	sort.Slice(idx, func(i, j int) bool { return idx[i] < idx[j] })
	h := sha256.New()
	var hdr [8]byte
	for _, r := range rs {
		lo, hi := r.Off, r.Off+r.Len
		for _, i := range idx {
			base := i * pageSize
			a, b := base, base+pageSize
			if a < lo {
				a = lo
			}
			if b > hi {
				b = hi
			}
			if a >= b {
				continue
			}
			seg := d.pages[i][a-base : b-base]
			if d.isBackground(seg, a) {
				continue
			}
			for k := 0; k < 8; k++ {
				hdr[k] = byte(a >> (8 * k))
			}
			h.Write(hdr[:])
			h.Write(seg)
		}
	}
	return fmt.Sprintf("%x", h.Sum(nil)[:12])
}

// IsBackground reports whether [off, off+n) holds nothing but the never-written background.
func (d *Dev) IsBackground(off, n int64) bool {
	b := d.Bytes(off, n)
	d.mu.Lock()
	defer d.mu.Unlock()
	return d.isBackground(b, off)
}
