// Package rawfat is an independent reader of FAT12/16/32 volumes (shares no code with
// go-diskfs).  It projects the raw bytes into the structures the C08 invariants talk
// about: boot sector geometry, both FAT copies, FSInfo, backup boot sector, every directory
// entry with its cluster chain.
package rawfat

import (
	"bytes"
	"encoding/binary"
	"fmt"
	"io"
	"strings"
	"unicode/utf16"
)

type Ent struct {
	Path   string   `json:"path"` // long name if present, else 8.3 name; slash separated from the root
	Short  string   `json:"short"`
	IsDir  bool     `json:"dir"`
	First  uint32   `json:"first"`
	Size   uint32   `json:"size"`
	Chain  []uint32 `json:"chain"`
	Bad    string   `json:"bad"` // "" or why the chain is broken: range / free / cycle / noeoc
	LFNBad bool     `json:"lfnbad"`
	Attr   byte     `json:"attr"`
	CTime  [2]uint16 `json:"-"` // date, time
	MTime  [2]uint16 `json:"-"`
	ADate  uint16   `json:"-"`
	NTRes  byte     `json:"-"`
}

type Vol struct {
	Type         string // fat12 fat16 fat32 (by structure: FATSz16 == 0 => fat32, else by cluster count)
	BPS          int
	SPC          int
	Reserved     int
	NumFATs      int
	RootEntries  int
	TotalSectors int64
	FATSectors   int64
	Media        byte
	BootSigOK    bool
	DataClusters int64
	DataStart    int64 // byte offset of cluster 2 relative to the volume start
	ClusterBytes int64
	RootCluster  uint32
	FSInfoSector int
	BackupBoot   int
	BackupEqual  bool
	FSInfoSigOK  bool
	FSInfoFree   uint32
	FSInfoNext   uint32
	FATsEqual    bool
	FAT          []uint32 // entries 0 .. DataClusters+1 of the first copy
	Beyond       []uint32 // cluster numbers > DataClusters+1 whose FAT entry is non-zero
	EOCMin       uint32
	RootChain    []uint32
	RootBad      string
	Entries      []Ent
	Label        string
	Problems     []string
}

type reader struct {
	r     io.ReaderAt
	start int64
	size  int64
}

func (r reader) at(off, n int64) ([]byte, error) {
	if off < 0 || n < 0 || off+n > r.size {
		return nil, fmt.Errorf("read [%d,+%d) outside the volume of %d bytes", off, n, r.size)
	}
	b := make([]byte, n)
	k, err := r.r.ReadAt(b, r.start+off)
	if int64(k) != n {
		return nil, fmt.Errorf("short read at %d: %v", off, err)
	}
	return b, nil
}

// Parse reads the FAT volume occupying [start, start+size) of r.
func Parse(ra io.ReaderAt, start, size int64) (*Vol, error) {
	r := reader{ra, start, size}
	bs, err := r.at(0, 512)
	if err != nil {
		return nil, err
	}
	v := &Vol{}
	v.BPS = int(binary.LittleEndian.Uint16(bs[11:13]))
	v.SPC = int(bs[13])
	v.Reserved = int(binary.LittleEndian.Uint16(bs[14:16]))
	v.NumFATs = int(bs[16])
	v.RootEntries = int(binary.LittleEndian.Uint16(bs[17:19]))
	tot16 := int64(binary.LittleEndian.Uint16(bs[19:21]))
	v.Media = bs[21]
	fat16 := int64(binary.LittleEndian.Uint16(bs[22:24]))
	tot32 := int64(binary.LittleEndian.Uint32(bs[32:36]))
	v.BootSigOK = bs[510] == 0x55 && bs[511] == 0xaa
	v.TotalSectors = tot16
	if tot16 == 0 {
		v.TotalSectors = tot32
	}
	if v.BPS < 512 || v.BPS > 4096 || v.BPS&(v.BPS-1) != 0 || v.SPC == 0 || v.NumFATs == 0 || v.Reserved == 0 {
		return nil, fmt.Errorf("implausible BPB: bps=%d spc=%d fats=%d reserved=%d", v.BPS, v.SPC, v.NumFATs, v.Reserved)
	}
	is32 := fat16 == 0
	v.FATSectors = fat16
	if is32 {
		v.FATSectors = int64(binary.LittleEndian.Uint32(bs[36:40]))
		v.RootCluster = binary.LittleEndian.Uint32(bs[44:48])
		v.FSInfoSector = int(binary.LittleEndian.Uint16(bs[48:50]))
		v.BackupBoot = int(binary.LittleEndian.Uint16(bs[50:52]))
	}
	rootSecs := (int64(v.RootEntries)*32 + int64(v.BPS) - 1) / int64(v.BPS)
	firstData := int64(v.Reserved) + int64(v.NumFATs)*v.FATSectors + rootSecs
	dataSecs := v.TotalSectors - firstData
	if dataSecs < 0 {
		return nil, fmt.Errorf("BPB: metadata (%d sectors) larger than volume (%d sectors)", firstData, v.TotalSectors)
	}
	v.DataClusters = dataSecs / int64(v.SPC)
	v.DataStart = firstData * int64(v.BPS)
	v.ClusterBytes = int64(v.SPC) * int64(v.BPS)
	switch {
	case is32:
		v.Type = "fat32"
		v.EOCMin = 0x0FFFFFF8
	case v.DataClusters < 4085:
		v.Type = "fat12"
		v.EOCMin = 0xFF8
	default:
		v.Type = "fat16"
		v.EOCMin = 0xFFF8
	}
	if v.TotalSectors*int64(v.BPS) > size {
		v.Problems = append(v.Problems, fmt.Sprintf("boot sector says %d sectors of %d bytes but the range holds only %d bytes", v.TotalSectors, v.BPS, size))
	}
	// FAT copies
	fatBytes := v.FATSectors * int64(v.BPS)
	f1, err := r.at(int64(v.Reserved)*int64(v.BPS), fatBytes)
	if err != nil {
		return nil, err
	}
	v.FATsEqual = true
	for i := 1; i < v.NumFATs; i++ {
		fi, err := r.at(int64(v.Reserved)*int64(v.BPS)+int64(i)*fatBytes, fatBytes)
		if err != nil {
			return nil, err
		}
		if !bytes.Equal(f1, fi) {
			v.FATsEqual = false
		}
	}
	get := func(n int64) (uint32, bool) {
		switch v.Type {
		case "fat12":
			o := n * 3 / 2
			if o+1 >= int64(len(f1)) {
				return 0, false
			}
			w := uint32(f1[o]) | uint32(f1[o+1])<<8
			if n%2 == 0 {
				return w & 0xFFF, true
			}
			return w >> 4, true
		case "fat16":
			if n*2+1 >= int64(len(f1)) {
				return 0, false
			}
			return uint32(binary.LittleEndian.Uint16(f1[n*2:])), true
		default:
			if n*4+3 >= int64(len(f1)) {
				return 0, false
			}
			return binary.LittleEndian.Uint32(f1[n*4:]) & 0x0FFFFFFF, true
		}
	}
	v.FAT = make([]uint32, v.DataClusters+2)
	for n := int64(0); n < v.DataClusters+2; n++ {
		x, ok := get(n)
		if !ok {
			v.Problems = append(v.Problems, fmt.Sprintf("FAT too small: no entry for cluster %d", n))
			break
		}
		v.FAT[n] = x
	}
	for n := v.DataClusters + 2; ; n++ {
		x, ok := get(n)
		if !ok {
			break
		}
		if x != 0 {
			v.Beyond = append(v.Beyond, uint32(n))
			if len(v.Beyond) > 64 {
				break
			}
		}
	}
	if is32 {
		if v.BackupBoot > 0 {
			if bb, err := r.at(int64(v.BackupBoot)*int64(v.BPS), 512); err == nil {
				v.BackupEqual = bytes.Equal(bb, bs)
			}
		}
		if v.FSInfoSector > 0 {
			if fi, err := r.at(int64(v.FSInfoSector)*int64(v.BPS), 512); err == nil {
				v.FSInfoSigOK = binary.LittleEndian.Uint32(fi[0:4]) == 0x41615252 && binary.LittleEndian.Uint32(fi[484:488]) == 0x61417272 && binary.LittleEndian.Uint32(fi[508:512]) == 0xAA550000
				v.FSInfoFree = binary.LittleEndian.Uint32(fi[488:492])
				v.FSInfoNext = binary.LittleEndian.Uint32(fi[492:496])
			}
		}
	}
	// directory tree
	var rootData []byte
	if is32 {
		v.RootChain, v.RootBad = v.chain(v.RootCluster)
		rootData, _ = v.readChain(r, v.RootChain)
	} else {
		rootData, err = r.at((int64(v.Reserved)+int64(v.NumFATs)*v.FATSectors)*int64(v.BPS), int64(v.RootEntries)*32)
		if err != nil {
			return nil, err
		}
	}
	v.walk(r, rootData, "", 0)
	return v, nil
}

// chain follows the FAT from first; bad names the first defect.
func (v *Vol) chain(first uint32) (c []uint32, bad string) {
	seen := map[uint32]bool{}
	n := first
	for {
		if int64(n) < 2 || int64(n) > v.DataClusters+1 {
			return c, "range"
		}
		if seen[n] {
			return c, "cycle"
		}
		seen[n] = true
		c = append(c, n)
		x := v.FAT[n]
		if x == 0 {
			return c, "free"
		}
		if x >= v.EOCMin {
			return c, ""
		}
		bad7 := map[string]uint32{"fat12": 0xFF7, "fat16": 0xFFF7, "fat32": 0x0FFFFFF7}[v.Type]
		if x == bad7 {
			return c, "badcluster"
		}
		n = x
		if len(c) > int(v.DataClusters)+2 {
			return c, "cycle"
		}
	}
}

func (v *Vol) readChain(r reader, c []uint32) ([]byte, error) {
	var out []byte
	for _, n := range c {
		b, err := r.at(v.DataStart+int64(n-2)*v.ClusterBytes, v.ClusterBytes)
		if err != nil {
			return out, err
		}
		out = append(out, b...)
	}
	return out, nil
}

func lfnSum(short []byte) byte {
	var s byte
	for i := 0; i < 11; i++ {
		s = ((s & 1) << 7) + (s >> 1) + short[i]
	}
	return s
}

func (v *Vol) walk(r reader, data []byte, prefix string, depth int) {
	if depth > 16 {
		v.Problems = append(v.Problems, "directory nesting > 16 at "+prefix)
		return
	}
	var lfn []uint16
	var lfnSumWant byte
	lfnExpect := 0
	lfnBad := false
	for i := 0; i+32 <= len(data); i += 32 {
		e := data[i : i+32]
		if e[0] == 0x00 {
			break
		}
		if e[0] == 0xE5 {
			lfn, lfnExpect = nil, 0
			continue
		}
		if e[11] == 0x0F {
			ord := int(e[0] & 0x3F)
			if e[0]&0x40 != 0 {
				lfn = make([]uint16, ord*13)
				lfnExpect = ord
				lfnSumWant = e[13]
				lfnBad = false
			}
			if ord != lfnExpect || ord == 0 || lfn == nil || e[13] != lfnSumWant {
				lfnBad = true
			} else {
				k := (ord - 1) * 13
				idx := 0
				for _, rg := range [][2]int{{1, 11}, {14, 26}, {28, 32}} {
					for o := rg[0]; o < rg[1]; o += 2 {
						lfn[k+idx] = binary.LittleEndian.Uint16(e[o:])
						idx++
					}
				}
				lfnExpect--
			}
			continue
		}
		attr := e[11]
		name := strings.TrimRight(string(e[0:8]), " ")
		ext := strings.TrimRight(string(e[8:11]), " ")
		if name != "" && name[0] == 0x05 {
			name = "\xE5" + name[1:]
		}
		if e[12]&0x08 != 0 {
			name = strings.ToLower(name)
		}
		if e[12]&0x10 != 0 {
			ext = strings.ToLower(ext)
		}
		short := name
		if ext != "" {
			short += "." + ext
		}
		long := ""
		thisBad := false
		if lfn != nil {
			if lfnExpect != 0 || lfnBad || lfnSum(e[0:11]) != lfnSumWant {
				thisBad = true
			} else {
				var u []uint16
				for _, w := range lfn {
					if w == 0 {
						break
					}
					u = append(u, w)
				}
				long = string(utf16.Decode(u))
			}
		}
		lfn, lfnExpect, lfnBad = nil, 0, false
		if attr&0x08 != 0 {
			v.Label = strings.TrimRight(string(e[0:11]), " ")
			continue
		}
		if short == "." || short == ".." {
			continue
		}
		nm := long
		if nm == "" {
			nm = short
		}
		p := nm
		if prefix != "" {
			p = prefix + "/" + nm
		}
		first := uint32(binary.LittleEndian.Uint16(e[26:28])) | uint32(binary.LittleEndian.Uint16(e[20:22]))<<16
		ent := Ent{Path: p, Short: short, IsDir: attr&0x10 != 0, First: first, Size: binary.LittleEndian.Uint32(e[28:32]), LFNBad: thisBad, Attr: attr, NTRes: e[12],
			CTime: [2]uint16{binary.LittleEndian.Uint16(e[16:18]), binary.LittleEndian.Uint16(e[14:16])},
			MTime: [2]uint16{binary.LittleEndian.Uint16(e[24:26]), binary.LittleEndian.Uint16(e[22:24])}, ADate: binary.LittleEndian.Uint16(e[18:20])}
		if first == 0 && !ent.IsDir && ent.Size == 0 {
			ent.Chain = []uint32{}
		} else {
			ent.Chain, ent.Bad = v.chain(first)
		}
		v.Entries = append(v.Entries, ent)
		if ent.IsDir && ent.Bad == "" && len(v.Entries) < 20000 {
			sub, _ := v.readChain(r, ent.Chain)
			v.walk(r, sub, p, depth+1)
		}
	}
}

// FileData returns the bytes of an entry read through its chain.
func (v *Vol) FileData(ra io.ReaderAt, start, size int64, e Ent) ([]byte, error) {
	r := reader{ra, start, size}
	d, err := v.readChain(r, e.Chain)
	if err != nil {
		return nil, err
	}
	if int64(e.Size) > int64(len(d)) {
		return d, fmt.Errorf("chain shorter than size")
	}
	return d[:e.Size], nil
}
