package props

import (
	"bytes"
	"encoding/json"
	"fmt"
	"math/rand"
	"time"

	"github.com/diskfs/go-diskfs/backend/file"
	"github.com/diskfs/go-diskfs/partition"
	"github.com/diskfs/go-diskfs/partition/gpt"

	"verif/harness/internal/core"
	"verif/harness/internal/fsx"
	"verif/harness/internal/memdev"
	"verif/harness/internal/tlc"
)

// C09 — repartitioning a GPT disk is atomic across power loss.
//
//  1. For each (old table, new table) pair the real gpt.Table.Write is recorded on a
//     memdev: its WriteAt/Sync sequence, restricted to the sectors whose content differs
//     between the old and the new image, becomes the writer program of GptCrash.tla.
//  2. TLC model-checks GptCrash (every prefix x every persisted subset) — the prediction.
//  3. TLC emits every crash state; each is materialised (old image + durable new sectors)
//     and read with the real gpt.Read and partition.Read.
//  4. GptCrash_Trace judges the outcomes (property level) and compares them with the
//     model's ReadBack (model level, DRIFT).

type c09Pair struct {
	name     string
	lss      int
	diskSize int64
	old, new *gpt.Table
	oldImg   *memdev.Dev
	newImg   *memdev.Dev
	oldView  gptView
	newView  gptView
	secOff   []int64 // sector id (1-based) -> byte offset
	rec      map[string]any
	// the history behind the old state and the way the new table comes about:
	repaired bool // the old disk lost its primary header, was read (from the backup) and the table read was written back
	rmw      bool // the new table is the table READ from the old disk with partitions / GUID replaced (read-modify-write)
}

func c09Region(off int64, lss int, diskSize int64) string {
	sec := off / int64(lss)
	total := diskSize / int64(lss)
	arr := int64(128 * 128 / lss)
	switch {
	case sec == 0:
		return "pmbr"
	case sec == 1:
		return "phdr"
	case sec >= 2 && sec < 2+arr:
		return "parr"
	case sec == total-1:
		return "bhdr"
	case sec >= total-1-arr && sec < total-1:
		return "barr"
	}
	return "other"
}

func c09Record(p *c09Pair) error {
	lss := int64(p.lss)
	d := memdev.New(p.diskSize)
	if p.old != nil {
		if err := cloneGPT(p.old).Write(d, p.diskSize); err != nil {
			return fmt.Errorf("write old: %w", err)
		}
		t, err := gpt.Read(file.New(d, true), p.lss, p.lss)
		if err != nil {
			return fmt.Errorf("old table does not read back: %w", err)
		}
		p.oldView = viewGPT(t)
		if p.repaired {
			d.WriteAt(make([]byte, 8), lss) // the primary header loses its signature
			rt, err := gpt.Read(file.New(d, true), p.lss, p.lss)
			if err != nil {
				return fmt.Errorf("old table is not recovered from the backup: %w", err)
			}
			if err := rt.Write(d, p.diskSize); err != nil {
				return fmt.Errorf("writing the recovered table back: %w", err)
			}
			rt2, err := gpt.Read(file.New(d, true), p.lss, p.lss)
			if err != nil || !viewGPT(rt2).equal(p.oldView) {
				return fmt.Errorf("repaired disk does not read back as the old table: %v", err)
			}
		}
	}
	p.oldImg = d.Clone()
	d.ResetLog()
	d.KeepData = true
	nw := cloneGPT(p.new)
	if p.rmw && p.old != nil {
		rt, err := gpt.Read(file.New(d, true), p.lss, p.lss)
		if err != nil {
			return fmt.Errorf("read for read-modify-write: %w", err)
		}
		rt.Partitions, rt.GUID, rt.ProtectiveMBR = nw.Partitions, nw.GUID, nw.ProtectiveMBR
		nw = rt
	}
	if err := nw.Write(d, p.diskSize); err != nil {
		return fmt.Errorf("write new: %w", err)
	}
	t, err := gpt.Read(file.New(d, true), p.lss, p.lss)
	if err != nil {
		return fmt.Errorf("new table does not read back: %w", err)
	}
	p.newView = viewGPT(t)
	p.newImg = d.Clone()
	// differing sectors
	ids := map[int64]int{}
	var reg []string
	var prog []map[string]any
	for _, op := range d.Log() {
		switch op.Kind {
		case "s":
			prog = append(prog, map[string]any{"op": "s", "secs": []int{}})
		case "w":
			secs := []int{}
			for s := op.Off / lss; s*lss < op.Off+op.Len; s++ {
				if bytes.Equal(p.oldImg.Bytes(s*lss, lss), p.newImg.Bytes(s*lss, lss)) {
					continue
				}
				id, ok := ids[s]
				if !ok {
					id = len(ids) + 1
					ids[s] = id
					reg = append(reg, c09Region(s*lss, p.lss, p.diskSize))
					p.secOff = append(p.secOff, s*lss)
				}
				secs = append(secs, id)
			}
			prog = append(prog, map[string]any{"op": "w", "secs": secs})
		}
	}
	for _, r := range reg {
		if r == "other" {
			return fmt.Errorf("table write touched a sector outside the table regions")
		}
	}
	p.rec = map[string]any{"n": len(ids), "reg": reg, "oldvalid": p.old != nil, "prog": prog, "name": p.name}
	return nil
}

func c09Classify(p *c09Pair, v gptView) string {
	switch {
	case v.equal(p.newView):
		return "new"
	case p.old != nil && v.equal(p.oldView):
		return "old"
	}
	return "mixed"
}

func c09Pairs(c *core.Ctx) []*c09Pair {
	r := rand.New(rand.NewSource(c.Seed))
	var ps []*c09Pair
	add := func(name string, lss int, disk int64, old, nw *gpt.Table) {
		ps = append(ps, &c09Pair{name: name, lss: lss, diskSize: disk, old: old, new: nw})
	}
	const MiB = 1 << 20
	ds := func(sz int64, lss int) uint64 { return uint64(sz / int64(lss)) }
	// differing in count, geometry, names, disk GUID; blank old
	a := genGPT(r, ds(10*MiB, 512), 512, 2, nil, true)
	b := genGPT(r, ds(10*MiB, 512), 512, 3, nil, true)
	add("2->3 parts, new guid", 512, 10*MiB, a, b)
	b2 := cloneGPT(a)
	b2.Partitions[1].Name = "renamed"
	add("rename only, same guid", 512, 10*MiB, a, b2)
	b3 := cloneGPT(a)
	b3.GUID = randGUID(r)
	add("disk guid only", 512, 10*MiB, a, b3)
	add("blank->2 parts", 512, 10*MiB, nil, a)
	add("5->1 parts", 512, 12*MiB, genGPT(r, ds(12*MiB, 512), 512, 5, nil, true), genGPT(r, ds(12*MiB, 512), 512, 1, nil, true))
	add("sparse indices 12 parts", 512, 16*MiB, genGPT(r, ds(16*MiB, 512), 512, 4, []int{1, 5, 9, 128}, true), genGPT(r, ds(16*MiB, 512), 512, 12, nil, true))
	// one partition of six deleted, the others renumbered: every later partition keeps its GUID but moves
	// to the previous slot (slots 4 and 5 lie in different sectors of the entry array)
	six := genGPT(r, ds(12*MiB, 512), 512, 6, nil, true)
	five := cloneGPT(six)
	five.Partitions = append(five.Partitions[:1], five.Partitions[2:]...)
	for i, p := range five.Partitions {
		p.Index = i + 1
	}
	add("6->5 parts, second deleted, rest renumbered with their GUIDs", 512, 12*MiB, six, five)
	// tables written without a protective MBR (the option is off by default): LBA 0 never carries one
	np := func(t *gpt.Table) *gpt.Table { x := cloneGPT(t); x.ProtectiveMBR = false; return x }
	add("no protective MBR, 2->3 parts", 512, 10*MiB, np(a), np(b))
	add("protective MBR only in the old table, rename", 512, 10*MiB, a, np(b2))
	// histories: the new table is the one read from the disk and modified; the old disk had been repaired from
	// its backup copy before (Read fell back to the backup, the table it returned was written back)
	add("read-modify-write, 2->3 parts", 512, 10*MiB, a, b)
	ps[len(ps)-1].rmw = true
	add("repaired from the backup, then read-modify-write 2->3 parts", 512, 10*MiB, a, b)
	ps[len(ps)-1].rmw, ps[len(ps)-1].repaired = true, true
	add("repaired from the backup, then a fresh table, rename", 512, 10*MiB, a, b2)
	ps[len(ps)-1].repaired = true
	if c.Tier == "thorough" {
		add("no protective MBR, blank->2 parts", 512, 10*MiB, nil, np(a))
		add("4k sectors 2->4", 4096, 64*MiB, genGPT(r, ds(64*MiB, 4096), 4096, 2, nil, true), genGPT(r, ds(64*MiB, 4096), 4096, 4, nil, true))
		add("128 entries", 512, 32*MiB, genGPT(r, ds(32*MiB, 512), 512, 3, nil, true), genGPT(r, ds(32*MiB, 512), 512, 128, nil, true))
		add("128->0 entries", 512, 32*MiB, genGPT(r, ds(32*MiB, 512), 512, 128, nil, true), genGPT(r, ds(32*MiB, 512), 512, 0, nil, true))
		add("blank->0 parts 4k", 4096, 64*MiB, nil, genGPT(r, ds(64*MiB, 4096), 4096, 0, nil, true))
		for i := 0; i < 30; i++ {
			lss := []int{512, 512, 4096}[r.Intn(3)]
			disk := int64(8+r.Intn(40)) * MiB
			if lss == 4096 {
				disk = int64(48+r.Intn(40)) * MiB
			}
			var old *gpt.Table
			if r.Intn(6) != 0 {
				old = genGPT(r, ds(disk, lss), lss, r.Intn(14), nil, true)
			}
			nw := genGPT(r, ds(disk, lss), lss, r.Intn(14), nil, true)
			if old != nil && r.Intn(3) == 0 {
				nw.GUID = old.GUID
			}
			add(fmt.Sprintf("random pair %d", i), lss, disk, old, nw)
		}
	}
	return ps
}

func C09(c *core.Ctx) {
	c.Rule = "case = one power-cut state (pair of tables, prefix of the recorded write program, subset of the in-flight write's differing sectors: all subsets when <= 12 sectors, else none/all/singles/first-k/last-k/alternating) generated by TLC from GptCrash.tla and materialised on a real image; non-trivial = at least one new sector durable and not all (distinct key = pair|pc|sector set)"
	c.Assumptions = []string{
		"sector (logical block) writes are atomic; sectors of one unsynced write persist in any subset; Sync makes all earlier writes durable",
		"the write program is recorded from the real gpt.Table.Write on memdev (WriteAt/Sync order is not prescribed by the spec)",
		"CRC collisions between mixed arrays are ignored by the model (the real reader is what is executed)",
	}
	pairs := c09Pairs(c)
	var prog bytes.Buffer
	var good []*c09Pair
	for _, p := range pairs {
		if err := c09Record(p); err != nil {
			c.Broken("pair %q: %v", p.name, err)
			continue
		}
		js, _ := json.Marshal(p.rec)
		prog.Write(js)
		prog.WriteByte('\n')
		good = append(good, p)
	}
	if len(good) == 0 {
		c.Broken("no table pair could be recorded")
		return
	}
	files := map[string][]byte{"gptprog.ndjson": prog.Bytes()}
	// 2. model check (prediction)
	mc, err := tlc.Run(tlc.Opts{Module: "GptCrash", Config: "GptCrash.cfg", Workers: 4, Files: files, Timeout: 10 * time.Minute})
	if err != nil {
		c.Broken("GptCrash MC: %v", err)
		return
	}
	predicted := mc.Violated
	c.States, c.Transitions = mc.Distinct, mc.Generated
	c.Extra["model_prediction"] = map[string]any{"ok": mc.OK, "violated": mc.Violated}
	// 3. crash states
	gen, err := tlc.Run(tlc.Opts{Module: "GptCrash", Config: "GptCrash_Gen.cfg", Workers: 1, Files: files, Timeout: 20 * time.Minute})
	if err != nil || !gen.OK {
		c.Broken("GptCrash Gen: %v", err)
		return
	}
	if mc.OK {
		c.States, c.Transitions = gen.Distinct, gen.Generated
	}
	type beh struct {
		Pair int   `json:"pair"`
		Pc   int   `json:"pc"`
		Done bool  `json:"done"`
		S    []int `json:"S"`
		Pred struct {
			T   string `json:"t"`
			Rec bool   `json:"rec"`
		} `json:"pred"`
	}
	var trace bytes.Buffer
	var behs []beh
	seen := map[string]bool{}
	for _, l := range gen.Beh {
		if seen[l] {
			continue
		}
		seen[l] = true
		var b beh
		if err := json.Unmarshal([]byte(l), &b); err != nil {
			c.Broken("bad crash state %q", l)
			return
		}
		behs = append(behs, b)
	}
	c.Exhaustive = true
	for _, b := range behs {
		p := good[b.Pair-1]
		img := p.oldImg.Clone()
		for _, id := range b.S {
			off := p.secOff[id-1]
			img.WriteAt(p.newImg.Bytes(off, int64(p.lss)), off)
		}
		out, rec, gout := "error", false, "error"
		var t *gpt.Table
		var rerr error
		if pn := fsx.Catch(func() { t, rerr = gpt.Read(file.New(img, true), p.lss, p.lss) }); pn != "" {
			out = "panic"
		} else if rerr == nil {
			out = c09Classify(p, viewGPT(t))
			rec = t.RecoveredFromBackup
		}
		var gt partition.Table
		if pn := fsx.Catch(func() { gt, rerr = partition.Read(file.New(img, true), p.lss, p.lss) }); pn != "" {
			gout = "panic"
		} else if rerr == nil {
			if g, ok := gt.(*gpt.Table); ok {
				gout = c09Classify(p, viewGPT(g))
			} else {
				gout = "other"
			}
		}
		ev := map[string]any{"pair": b.Pair, "pc": b.Pc, "done": b.Done, "S": b.S, "out": out, "rec": rec, "gout": gout}
		js, _ := json.Marshal(ev)
		trace.Write(js)
		trace.WriteByte('\n')
		c.AddEval(1)
		if len(b.S) > 0 && len(b.S) < p.rec["n"].(int) {
			c.Distinct(fmt.Sprintf("%d|%d|%v", b.Pair, b.Pc, b.S))
		}
		if len(b.S) == 2 {
			c.Sample(map[string]any{"pair": p.name, "event": ev, "model": b.Pred})
		}
	}
	// 4. judge
	tv, err := tlc.ValidateTrace("GptCrash_Trace", "GptCrash_Trace.cfg", trace.Bytes(), files, 20*time.Minute, false)
	if err != nil {
		c.Broken("GptCrash_Trace: %v", err)
		return
	}
	lines := bytes.Split(bytes.TrimSpace(trace.Bytes()), []byte("\n"))
	for k, idx := range tv.Mismatches {
		b := behs[idx-1]
		p := good[b.Pair-1]
		var ev map[string]any
		json.Unmarshal(lines[idx-1], &ev)
		class := fmt.Sprintf("crash-state-reads-as-%v/%v", ev["out"], ev["gout"])
		if b.Done {
			class = "completed-write-" + class
		}
		c.FailClass(class, []string{class}, fmt.Sprintf("pair %q (lss %d): power cut at program step %d with new sectors %v durable reads back as %v (recovered=%v; partition.Read: %v) — %s", p.name, p.lss, b.Pc, c09SecNames(p, b.S), ev["out"], ev["rec"], ev["gout"], tv.Details[k]),
			map[string]any{"pair": p.name, "lss": p.lss, "disk_size": p.diskSize, "old": p.old, "new": p.new, "program": p.rec["prog"], "regions": p.rec["reg"], "sector_offsets": p.secOff, "crash_state": b, "observed": ev})
	}
	c.TracesValidated = int64(len(behs) - len(tv.Mismatches))
	c.Extra["pairs"] = len(good)
	c.Extra["crash_states"] = len(behs)
	c.Extra["drift_events"] = len(tv.Drifts)
	if len(tv.Drifts) > 0 && len(tv.Mismatches) == 0 {
		c.Broken("MODEL-DRIFT: %d crash states read back differently from GptCrash.ReadBack although the property held, e.g. %s", len(tv.Drifts), tv.DriftDetails[0])
	}
	if predicted != "" && len(tv.Mismatches) == 0 {
		c.Broken("MODEL-DRIFT: TLC predicts a violation of %s for the recorded write program but no materialised crash state violates the property on the real reader", predicted)
	}
}

func c09SecNames(p *c09Pair, s []int) []string {
	var out []string
	reg := p.rec["reg"].([]string)
	for _, id := range s {
		out = append(out, fmt.Sprintf("%s@%d", reg[id-1], p.secOff[id-1]))
	}
	return out
}
