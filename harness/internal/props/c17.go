package props

import (
	"bytes"
	"encoding/json"
	"fmt"
	"io"
	"math/rand"
	"os"
	"os/exec"
	"runtime"
	"sort"
	"strings"
	"sync"
	"sync/atomic"
	"time"

	"github.com/diskfs/go-diskfs/filesystem/squashfs"

	"verif/harness/internal/core"
	"verif/harness/internal/fsx"
	"verif/harness/internal/tlc"
)

// C17 — concurrent readers of one squashfs image are safe and correct (Lru.tla).
//
//  1. TLC checks every interleaving of the PlusCal transcription of lru.go (deadlock,
//     structure, bound, returned data, lock discipline; liveness under fairness).
//  2. TLC -simulate emits complete interleavings; each is FORCED on real goroutines through
//     the gates compiled into lru.go (tag verif): one release = one PlusCal step; after every
//     step the real cache state is compared with the spec state.
//  3. Free-running stress on a real squashfs image (files sharing fragment and metadata
//     blocks; cache sizes 0 / 1 block / few / default; concurrent SetCacheSize; yields in
//     ReadAt; GOMAXPROCS 1..16), each goroutine's bytes compared with the known content —
//     executed by a second binary built with -race.

// ---------- forced schedule replay ----------

type lruStep struct {
	G    string `json:"g"`
	Lbl  string `json:"lbl"`
	Pos  int64  `json:"pos"`
	To   string `json:"to"`
	Snap struct {
		Keys    []int64 `json:"keys"`
		Order   []int64 `json:"order"`
		HasData []int64 `json:"hasdata"`
		Max     int     `json:"max"`
	} `json:"snap"`
}

type arrival struct {
	g     string
	label string
	done  bool
}

type gateCtl struct {
	mu      sync.Mutex
	byGoid  map[int64]string
	resume  map[string]chan int64
	arrive  chan arrival
	freeRun atomic.Bool
	cache   squashfs.VerifLRU
}

func goid() int64 {
	var buf [64]byte
	n := runtime.Stack(buf[:], false)
	// "goroutine 123 ["
	s := strings.TrimPrefix(string(buf[:n]), "goroutine ")
	var id int64
	fmt.Sscanf(s, "%d", &id)
	return id
}

func (c *gateCtl) who() string {
	c.mu.Lock()
	defer c.mu.Unlock()
	return c.byGoid[goid()]
}

// gate parks the calling goroutine until the controller releases it; returns the value sent.
func (c *gateCtl) gate(label string) int64 {
	if c.freeRun.Load() {
		return -2
	}
	g := c.who()
	if g == "" {
		return -2
	}
	c.arrive <- arrival{g: g, label: label}
	c.mu.Lock()
	ch := c.resume[g]
	c.mu.Unlock()
	return <-ch
}

type replayResult struct {
	Diverged   string // "" or description of the first divergence between spec and code
	Step       int
	WrongData  []string
	Panic      string // a goroutine panicked inside the cache
	Hang       bool
	Steps      int
	FinalState squashfs.VerifSnapshot
}

func sortedCopy(a []int64) []int64 {
	b := append([]int64{}, a...)
	sort.Slice(b, func(i, j int) bool { return b[i] < b[j] })
	return b
}

func eqInts(a, b []int64) bool {
	if len(a) != len(b) {
		return false
	}
	for i := range a {
		if a[i] != b[i] {
			return false
		}
	}
	return true
}

var replayMu sync.Mutex // VerifGateFn is a package-level variable: one replay at a time

// lruReplay forces one TLC-generated interleaving on real goroutines.
func lruReplay(steps []lruStep, readers []string, maxInit int, resizes []int) replayResult {
	replayMu.Lock()
	defer replayMu.Unlock()
	ctl := &gateCtl{byGoid: map[int64]string{}, resume: map[string]chan int64{}, arrive: make(chan arrival, 64)}
	ctl.cache = squashfs.VerifNewLRU(maxInit)
	squashfs.VerifGateFn = func(label string, cache any, pos int64) {
		if ctl.cache.Is(cache) {
			ctl.gate(label)
		}
	}
	defer func() { squashfs.VerifGateFn = nil }()
	res := replayResult{}
	var wrongMu sync.Mutex
	var wg sync.WaitGroup
	content := func(p int64) []byte { return []byte(fmt.Sprintf("content-of-position-%d", p)) }
	start := func(name string, body func()) {
		ctl.resume[name] = make(chan int64, 1)
		wg.Add(1)
		ready := make(chan struct{})
		go func() {
			defer wg.Done()
			defer func() {
				// a panic inside the cache (it may hold the cache's lock: the others then never finish)
				if r := recover(); r != nil {
					wrongMu.Lock()
					if res.Panic == "" {
						res.Panic = fmt.Sprintf("%s: %v", name, r)
					}
					wrongMu.Unlock()
					ctl.arrive <- arrival{g: name, done: true}
				}
			}()
			ctl.mu.Lock()
			ctl.byGoid[goid()] = name
			ctl.mu.Unlock()
			close(ready)
			body()
			if !ctl.freeRun.Load() {
				ctl.arrive <- arrival{g: name, done: true}
			}
		}()
		<-ready
	}
	for _, r := range readers {
		r := r
		start(r, func() {
			for {
				p := ctl.gate("R0")
				if p == -1 {
					return
				}
				if p == -2 { // free run after a divergence: finish a bounded amount of work
					p = 1
				}
				data, _, err := ctl.cache.Get(p, func() ([]byte, uint16, error) { return content(p), uint16(len(content(p))), nil })
				if err != nil || !bytes.Equal(data, content(p)) {
					wrongMu.Lock()
					res.WrongData = append(res.WrongData, fmt.Sprintf("%s: Get(%d) returned %q err=%v", r, p, data, err))
					wrongMu.Unlock()
				}
				if ctl.gate("Ret") == -2 && ctl.freeRun.Load() {
					return
				}
			}
		})
	}
	start("rz", func() {
		for _, n := range resizes {
			if ctl.gate("Z0") == -2 && ctl.freeRun.Load() {
				return
			}
			ctl.cache.SetMax(n)
		}
		ctl.gate("Z0")
	})
	parked := map[string]string{}
	finished := map[string]bool{}
	waitFor := func(g string, d time.Duration) bool {
		deadline := time.After(d)
		for {
			if _, ok := parked[g]; ok || finished[g] {
				return true
			}
			select {
			case a := <-ctl.arrive:
				if a.done {
					finished[a.g] = true
				} else {
					parked[a.g] = a.label
				}
			case <-deadline:
				return false
			}
		}
	}
	diverge := func(i int, msg string) {
		if res.Diverged == "" {
			res.Diverged, res.Step = msg, i
		}
	}
	for i, st := range steps {
		if !waitFor(st.G, 2*time.Second) {
			diverge(i, fmt.Sprintf("step %d: %s never reached a gate (expected to be at %s)", i, st.G, st.Lbl))
			break
		}
		if finished[st.G] {
			diverge(i, fmt.Sprintf("step %d: %s already finished but the schedule continues with %s", i, st.G, st.Lbl))
			break
		}
		if parked[st.G] != st.Lbl {
			diverge(i, fmt.Sprintf("step %d: %s is at gate %s, the specification expects %s", i, st.G, parked[st.G], st.Lbl))
			break
		}
		delete(parked, st.G)
		val := st.Pos
		if (st.Lbl == "R0" || st.Lbl == "Z0") && st.To == "Done" {
			val = -1
		}
		ctl.resume[st.G] <- val
		// the released goroutine performs exactly one step and parks again (or finishes)
		if !waitFor(st.G, 2*time.Second) {
			diverge(i, fmt.Sprintf("step %d: %s released at %s did not complete the step (blocked), although it is enabled in the specification", i, st.G, st.Lbl))
			break
		}
		res.Steps++
		// all goroutines are parked: compare abstract states
		sn := ctl.cache.Snapshot()
		if !eqInts(sortedCopy(sn.Keys), sortedCopy(st.Snap.Keys)) || !eqInts(sn.Order, st.Snap.Order) || !eqInts(sortedCopy(sn.HasData), sortedCopy(st.Snap.HasData)) || sn.MaxBlocks != st.Snap.Max {
			diverge(i, fmt.Sprintf("step %d (%s %s): cache state differs: real keys=%v order=%v hasdata=%v max=%d, spec keys=%v order=%v hasdata=%v max=%d",
				i, st.G, st.Lbl, sortedCopy(sn.Keys), sn.Order, sortedCopy(sn.HasData), sn.MaxBlocks, st.Snap.Keys, st.Snap.Order, st.Snap.HasData, st.Snap.Max))
			break
		}
	}
	// free run to the end: property-level outcomes (termination, data) are what counts
	ctl.freeRun.Store(true)
	for g, ch := range ctl.resume {
		_ = g
		select {
		case ch <- -2:
		default:
		}
	}
	done := make(chan struct{})
	go func() { wg.Wait(); close(done) }()
	drain := time.After(5 * time.Second)
loop:
	for {
		select {
		case <-done:
			break loop
		case <-ctl.arrive:
		case <-drain:
			res.Hang = true
			break loop
		}
	}
	if !res.Hang {
		res.FinalState = ctl.cache.Snapshot()
	}
	return res
}

// ---------- free-running stress (child role, also built with -race) ----------

type c17Image struct {
	vol   *fsx.Vol
	files map[string][]byte
}

func c17Build(seed int64) (*c17Image, error) {
	r := rand.New(rand.NewSource(seed))
	files := map[string][]byte{}
	var es []fsx.Entry
	for i := 0; i < 60; i++ { // small files: share fragment blocks and metadata blocks
		n := 300 + r.Intn(1500)
		p := fmt.Sprintf("small/f%03d.dat", i)
		files[p] = fsx.Content(i+1, n)
	}
	for i := 0; i < 6; i++ { // multi-block files with a fragment tail
		n := 4096*(1+r.Intn(5)) + r.Intn(4000)
		p := fmt.Sprintf("big/b%d.bin", i)
		files[p] = fsx.Content(100+i, n)
	}
	for i := 0; i < 40; i++ { // a deep-ish tree so that directory metadata spans blocks
		p := fmt.Sprintf("tree/d%d/e%d/leaf%02d.txt", i%4, i%3, i)
		files[p] = fsx.Content(200+i, 50+r.Intn(200))
	}
	for p, d := range files {
		es = append(es, fsx.Entry{Path: p, Data: d})
	}
	// symbolic links to regular files: opening through a link walks the directories a second time
	// (the library opens the target from inside the first open)
	for i := 0; i < 10; i++ {
		target := fmt.Sprintf("small/f%03d.dat", i*5)
		lp := fmt.Sprintf("link-to-%03d", i*5) // in the root: the library resolves a link's target from the root directory
		es = append(es, fsx.Entry{Path: lp, Link: target})
		files[lp] = files[target]
	}
	vol, err := fsx.BuildImage("squashfs", es, fsx.Opt{SquashBlock: 4096})
	if err != nil {
		return nil, err
	}
	return &c17Image{vol, files}, nil
}

func c17Stress(job map[string]any) map[string]any {
	num := func(k string) int { f, _ := job[k].(float64); return int(f) }
	img, err := c17Build(int64(num("seed")))
	if err != nil {
		return map[string]any{"out": "infra", "detail": err.Error()}
	}
	if p := num("gomaxprocs"); p > 0 {
		runtime.GOMAXPROCS(p)
	}
	img.vol.Dev.Yield = job["yield"] == true
	// a fresh FileSystem object for this run
	fsys, err := fsx.OpenKind("squashfs", img.vol.Dev, img.vol.Size, 0, 4096, true)
	if err != nil {
		return map[string]any{"out": "infra", "detail": err.Error()}
	}
	sq := fsys.(*squashfs.FileSystem)
	cache := num("cache")
	if cache >= 0 {
		sq.SetCacheSize(cache)
	}
	names := make([]string, 0, len(img.files))
	for p := range img.files {
		names = append(names, p)
	}
	sort.Strings(names)
	var wg sync.WaitGroup
	var mism, progress atomic.Int64
	var firstBad atomic.Value
	stop := make(chan struct{})
	n := num("readers")
	rounds := num("rounds")
	for g := 0; g < n; g++ {
		wg.Add(1)
		go func(g int) {
			defer wg.Done()
			defer func() {
				if r := recover(); r != nil {
					mism.Add(1)
					firstBad.CompareAndSwap(nil, fmt.Sprintf("goroutine %d panicked: %v", g, r))
				}
			}()
			r := rand.New(rand.NewSource(int64(g)*7919 + int64(num("seed"))))
			for round := 0; round < rounds; round++ {
				order := r.Perm(len(names))
				for _, i := range order {
					p := names[i]
					f, err := sq.OpenFile(p, os.O_RDONLY)
					if err != nil {
						mism.Add(1)
						firstBad.CompareAndSwap(nil, fmt.Sprintf("open %s: %v", p, err))
						continue
					}
					var got []byte
					buf := make([]byte, 1+r.Intn(6000))
					for {
						k, err := f.Read(buf)
						progress.Add(1)
						got = append(got, buf[:k]...)
						if err == io.EOF {
							break
						}
						if err != nil || len(got) > len(img.files[p])+10 {
							got = append(got, []byte(fmt.Sprintf("<err %v>", err))...)
							break
						}
					}
					f.Close()
					if !bytes.Equal(got, img.files[p]) {
						mism.Add(1)
						firstBad.CompareAndSwap(nil, fmt.Sprintf("goroutine %d: content of %s differs (%d bytes read, %d expected)", g, p, len(got), len(img.files[p])))
					}
				}
				if round%2 == 1 {
					if _, err := sq.ReadDir("tree/d1/e1"); err != nil {
						mism.Add(1)
						firstBad.CompareAndSwap(nil, fmt.Sprintf("ReadDir: %v", err))
					}
				}
			}
		}(g)
	}
	if job["resize"] == true {
		go func() {
			sizes := []int{0, 4096, 3 * 4096, 64 * 4096, 1 << 20, 1}
			for i := 0; ; i++ {
				select {
				case <-stop:
					return
				default:
				}
				sq.SetCacheSize(sizes[i%len(sizes)])
				runtime.Gosched()
				time.Sleep(50 * time.Microsecond)
			}
		}()
	}
	done := make(chan struct{})
	go func() { wg.Wait(); close(done) }()
	// "hang" is a verdict about PROGRESS, not about wall-clock time: no Read call returned anywhere for 45 s.
	// A run that is merely slow (a loaded machine, the race detector) keeps making progress; if it is still
	// going after 170 s the run is reported as infrastructure trouble (exit 2), never as a violation.
	out := map[string]any{"out": "ok"}
	started, last, lastAt := time.Now(), int64(-1), time.Now()
wait:
	for {
		select {
		case <-done:
			break wait
		case <-time.After(time.Second):
			if p := progress.Load(); p != last {
				last, lastAt = p, time.Now()
			}
			if time.Since(lastAt) > 45*time.Second {
				out["out"] = "hang"
				break wait
			}
			if time.Since(started) > 170*time.Second {
				out["out"], out["detail"] = "infra", fmt.Sprintf("stress run still making progress after 170 s (%d reads done)", last)
				break wait
			}
		}
	}
	close(stop)
	out["mismatches"] = mism.Load()
	if v := firstBad.Load(); v != nil {
		out["first"] = v
		if out["out"] == "ok" {
			out["out"] = "wrong"
		}
	}
	return out
}

func init() { childRoles["c17stress"] = c17Stress }

func lruGenCfg(readers []string, npos, maxInit, ops int, resizes string) []byte {
	rs := `"` + strings.Join(readers, `", "`) + `"`
	ps := []string{}
	for i := 1; i <= npos; i++ {
		ps = append(ps, fmt.Sprint(i))
	}
	return []byte(fmt.Sprintf("SPECIFICATION GSpec\nCONSTANTS\n  Readers = {%s}\n  Pos = {%s}\n  MaxInit = %d\n  Ops = %d\n  NBlocks = %d\n  Resizes <- %s\n  defaultInitValue = 0\nINVARIANT Emit\nCHECK_DEADLOCK FALSE\n",
		rs, strings.Join(ps, ", "), maxInit, ops, len(readers)*ops+2, resizes))
}

func C17(c *core.Ctx) {
	c.Rule = "case = one complete interleaving of Lru.tla (2-3 readers x 2-3 positions x 2 Gets each + a resizer, initial maxBlocks 0/1/2) produced by TLC -simulate and FORCED on real goroutines through the gates in lru.go, cache state compared after every step; plus free-running stress runs (2..32 goroutines x cache sizes {0,1 block,3 blocks,default} x concurrent SetCacheSize x ReadAt yields x GOMAXPROCS 1..16) in a -race binary; non-trivial = an interleaving in which at least two processes alternate inside get (distinct key = the schedule)"
	c.Assumptions = []string{"gates exist only where lru.go takes/releases a lock or touches cache/list/block data; accesses without a gate (GetCacheSize reads maxBlocks unlocked) are outside the model", "the race detector is an auxiliary observer of the stress runs, not the decision procedure", "goroutine identity for the gates is the runtime goroutine id (harness side only)"}
	// 1. model checking
	mc, err := tlc.Run(tlc.Opts{Module: "Lru_MC", Config: "Lru_MC.cfg", Workers: 8, Timeout: 20 * time.Minute})
	if err != nil || !mc.OK {
		c.Broken("Lru_MC: %v", err)
		return
	}
	c.States, c.Transitions = mc.Distinct, mc.Generated
	lv, err := tlc.Run(tlc.Opts{Module: "Lru_MC", Config: "Lru_Live.cfg", Workers: 4, Timeout: 10 * time.Minute})
	if err != nil || !lv.OK {
		c.Broken("Lru liveness: %v", err)
	}
	if c.Tier == "thorough" {
		cfg3 := "SPECIFICATION Spec\nCONSTANTS\n  Readers = {\"r1\", \"r2\", \"r3\"}\n  Pos = {1, 2}\n  MaxInit = 1\n  Ops = 1\n  NBlocks = 5\n  Resizes <- Resizes02\n  defaultInitValue = 0\nINVARIANTS P_C17_ReturnsRight P_C17_Structure P_C17_Bounded P_C17_DataRight\nPROPERTY P_C17_LockDiscipline\n"
		m3, err := tlc.Run(tlc.Opts{Module: "Lru_MC", Config: "mc3.cfg", Workers: 12, Files: map[string][]byte{"mc3.cfg": []byte(cfg3)}, Timeout: 30 * time.Minute, HeapMB: 12000})
		if err != nil || !m3.OK {
			c.Broken("Lru_MC 3 readers: %v", err)
		} else {
			c.States += m3.Distinct
			c.Transitions += m3.Generated
		}
	}
	// 2. forced schedules
	type genCfg struct {
		readers []string
		npos    int
		maxInit int
		ops     int
		resizes string
		rz      []int
		num     int
	}
	q := 150
	if c.Tier == "thorough" {
		q = 3000
	}
	gcs := []genCfg{
		{[]string{"r1", "r2"}, 2, 1, 2, "Resizes02", []int{0, 2}, q},
		{[]string{"r1", "r2"}, 2, 0, 2, "Resizes1", []int{1}, q / 2},
		{[]string{"r1", "r2", "r3"}, 3, 2, 2, "Resizes02", []int{0, 2}, q / 2},
		{[]string{"r1", "r2", "r3"}, 2, 1, 1, "ResizesNone", nil, q / 3},
	}
	total, diverged := 0, 0
	for gi, g := range gcs {
		sim, err := tlc.Run(tlc.Opts{Module: "Lru_Gen", Config: "gen.cfg", Workers: 1, Simulate: fmt.Sprintf("num=%d", g.num), Depth: 400, Seed: c.Seed + int64(gi),
			Files: map[string][]byte{"gen.cfg": lruGenCfg(g.readers, g.npos, g.maxInit, g.ops, g.resizes)}, Timeout: 20 * time.Minute})
		if err != nil {
			c.Broken("Lru_Gen: %v", err)
			return
		}
		seen := map[string]bool{}
		for _, b := range sim.Beh {
			if seen[b] {
				continue
			}
			seen[b] = true
			var steps []lruStep
			if json.Unmarshal([]byte(b), &steps) != nil {
				c.Broken("bad schedule")
				return
			}
			res := lruReplay(steps, g.readers, g.maxInit, g.rz)
			total++
			c.AddEval(int64(res.Steps))
			// non-trivial: some step of one process lies between LockL and UnlockB of another
			c.Distinct(b)
			brief := make([]string, 0, len(steps))
			for _, s := range steps {
				brief = append(brief, s.G+":"+s.Lbl)
			}
			if total%97 == 3 {
				c.Sample(map[string]any{"readers": g.readers, "maxInit": g.maxInit, "resizes": g.rz, "schedule": strings.Join(brief, " "), "steps_forced": res.Steps})
			}
			rep := map[string]any{"readers": g.readers, "positions": g.npos, "maxInit": g.maxInit, "ops": g.ops, "resizes": g.rz, "schedule": brief, "result": res}
			switch {
			case res.Panic != "":
				c.FailClass("lru-panic", []string{"lru-panic"}, fmt.Sprintf("forced interleaving: panic inside the block cache: %s (after %s)", res.Panic, res.Diverged), rep)
			case res.Hang:
				c.FailClass("lru-goroutines-do-not-finish", []string{"lru-goroutines-do-not-finish"}, fmt.Sprintf("forced interleaving: goroutines did not finish after %s", res.Diverged), rep)
			case len(res.WrongData) > 0:
				c.FailClass("lru-get-returns-wrong-data", []string{"lru-get-returns-wrong-data"}, fmt.Sprintf("forced interleaving (diverged: %q): %s", res.Diverged, res.WrongData[0]), rep)
			case res.Diverged != "":
				diverged++
				if diverged <= 3 {
					c.Broken("MODEL-DRIFT: the real cache left the specification without violating the property: %s", res.Diverged)
				}
			default:
				c.TracesValidated++
			}
		}
	}
	c.Extra["schedules_forced"] = total
	c.Extra["schedules_diverged"] = diverged
	if total == 0 {
		c.Broken("no schedule was generated")
	}
	// 3. stress, in the -race binary
	c17RunStress(c)
}

func c17RunStress(c *core.Ctx) {
	self, _ := os.Executable()
	race := self + "-race"
	if _, err := os.Stat(race); err != nil {
		c.Broken("race-detector binary %s missing (bin/check builds it for C17)", race)
		return
	}
	type sj struct {
		Readers, Cache, Gomaxprocs, Rounds int
		Resize, Yield                      bool
	}
	jobs := []sj{
		{2, 0, 1, 3, false, true}, {4, 4096, 2, 3, false, true}, {8, 3 * 4096, 4, 2, true, true}, {16, -1, 16, 1, true, false}, {8, 1, 8, 2, true, true},
	}
	if c.Tier == "thorough" {
		for _, n := range []int{2, 3, 8, 32} {
			for _, cs := range []int{0, 4096, 2 * 4096, 8 * 4096, -1} {
				for _, rz := range []bool{false, true} {
					jobs = append(jobs, sj{n, cs, []int{1, 2, 16}[(n+cs/4096+3)%3], 3, rz, (n+cs/4096)%2 == 0})
				}
			}
		}
	}
	for i, j := range jobs {
		b, _ := json.Marshal(map[string]any{"readers": j.Readers, "cache": j.Cache, "gomaxprocs": j.Gomaxprocs, "rounds": j.Rounds, "resize": j.Resize, "yield": j.Yield, "seed": c.Seed + int64(i)})
		cmd := exec.Command(race, "--child", "c17stress")
		cmd.Stdin = bytes.NewReader(append(b, '\n'))
		cmd.Env = append(os.Environ(), "GORACE=halt_on_error=1 exitcode=66")
		var out, errb bytes.Buffer
		cmd.Stdout, cmd.Stderr = &out, &errb
		done := make(chan error, 1)
		go func() { done <- cmd.Run() }()
		var runErr error
		select {
		case runErr = <-done:
		case <-time.After(180 * time.Second):
			cmd.Process.Kill()
			<-done
			c.FailClass("stress-hang", []string{"stress-hang"}, fmt.Sprintf("stress run %+v did not finish in 180 s", j), j)
			continue
		}
		c.AddEval(1)
		c.Distinct(fmt.Sprintf("stress %+v", j))
		if strings.Contains(errb.String(), "DATA RACE") {
			c.FailClass("data-race", []string{"data-race"}, fmt.Sprintf("race detector report in stress run %+v: %s", j, tailStr(errb.String(), 1500)), map[string]any{"job": j, "report": tailStr(errb.String(), 6000)})
			continue
		}
		var r map[string]any
		if json.Unmarshal(bytes.TrimSpace(out.Bytes()), &r) != nil {
			if runErr != nil {
				c.FailClass("stress-crash", []string{"stress-crash"}, fmt.Sprintf("stress run %+v crashed: %v %s", j, runErr, tailStr(errb.String(), 1500)), map[string]any{"job": j, "stderr": tailStr(errb.String(), 6000)})
			} else {
				c.Broken("stress child gave no result: %s", tailStr(errb.String(), 500))
			}
			continue
		}
		switch str(r, "out") {
		case "ok":
			c.TracesValidated++
		case "infra":
			c.Broken("stress infra: %v", r["detail"])
		default:
			c.FailClass("stress-"+str(r, "out"), []string{"stress-" + str(r, "out")}, fmt.Sprintf("stress run %+v: %v mismatches, first: %v", j, r["mismatches"], r["first"]), map[string]any{"job": j, "result": r})
		}
	}
	c.Extra["stress_runs"] = len(jobs)
}

func tailStr(s string, n int) string {
	if len(s) > n {
		return s[len(s)-n:]
	}
	return s
}
