package props

import (
	"bytes"
	"encoding/json"
	"fmt"
	"os"
	"time"

	"verif/harness/internal/core"
	"verif/harness/internal/tlc"
)

// C14 — reproducible mode yields byte-identical images (Repro.tla).  The same TLC-generated
// behaviours are executed twice, in two separate child processes started more than two
// seconds apart (FAT time stamps have 2 s resolution), on volumes placed at different
// offsets; after every call both runs report the SHA-256 of the volume's byte range.
// Tables: every PartTable tuple is written twice and re-written after being read.

func c14Child(job map[string]any) map[string]any {
	var cfg fatCfg
	var ops []fatOp
	b, _ := json.Marshal(job["cfg"])
	json.Unmarshal(b, &cfg)
	b, _ = json.Marshal(job["ops"])
	json.Unmarshal(b, &ops)
	ep, _ := job["epoch"].(float64)
	os.Setenv("SOURCE_DATE_EPOCH", fmt.Sprintf("%d", int64(ep)))
	if job["warm"] == true {
		// "regardless of ... process": the second execution happens in a process that has done other FAT work
		// before (another volume, a directory grown to several clusters and emptied again)
		fatExec(fatCfg{Kind: "fat16", Size: 5 << 20, Names: "plain", Repro: true}, []fatOp{{A: "Mkdir", P: "D"}, {A: "Create", P: "D/A"}, {A: "Churn", P: "D", K: 60}, {A: "Churn", P: "", K: 30}}, false, false)
	}
	evs, err := fatExec(cfg, ops, true, false)
	if err != nil {
		return map[string]any{"out": "error", "detail": err.Error()}
	}
	var shas, res []string
	for _, e := range evs {
		shas = append(shas, str(e, "sha"))
		res = append(res, str(e, "res"))
	}
	return map[string]any{"out": "ok", "shas": shas, "res": res}
}

func init() { childRoles["c14"] = c14Child }

func C14(c *core.Ctx) {
	c.Rule = "FAT: case = (FAT type, size, SOURCE_DATE_EPOCH class {0, 315532799 (pre-1980), odd second, 2107+}, call sequence from FatTree_Gen (BFS depth 2 incl. negative calls; thorough: depth 3 sample + walks)), executed in two separate processes > 2.1 s apart (the second one has done other FAT work before: another volume, a directory grown and emptied) on volumes at different start offsets, SHA-256 of the volume range compared after every call; tables: every PartTable tuple written twice and rewritten after being read; non-trivial = every case (distinct key = config|epoch|sequence)"
	c.Assumptions = []string{"SHA-256 (first 8 bytes) of the volume's byte range stands for byte identity", "second process starts after the first has finished plus 2.2 s"}
	// design-level: the self-composition model holds for all clock schedules; and the leaky
	// variant is found (binding self-test of the model)
	mc, err := tlc.Run(tlc.Opts{Module: "Repro", Config: "Repro.cfg", Workers: 4})
	if err != nil || !mc.OK {
		c.Broken("Repro MC: %v", err)
		return
	}
	c.States, c.Transitions = mc.Distinct, mc.Generated
	if c.Tier == "thorough" {
		lk, err := tlc.Run(tlc.Opts{Module: "Repro", Config: "Repro_Leak.cfg", Workers: 4})
		if err != nil || lk.Violated != "P_C14_Identical" {
			c.Broken("Repro self-test: a clock-reading operation was not found by TLC (%v)", err)
		}
	}
	depth := 2
	gen, err := tlc.Run(tlc.Opts{Module: "FatTree_Gen", Config: "gen.cfg", Workers: 1, Files: map[string][]byte{"gen.cfg": fatGenCfg(depth, true, false)}, Timeout: 10 * time.Minute})
	if err != nil || !gen.OK {
		c.Broken("FatTree_Gen: %v", err)
		return
	}
	behs, err := parseFatBehs(gen.Beh)
	if err != nil {
		c.Broken("%v", err)
		return
	}
	if c.Tier == "thorough" {
		g3, err := tlc.Run(tlc.Opts{Module: "FatTree_Gen", Config: "gen.cfg", Workers: 1, Files: map[string][]byte{"gen.cfg": fatGenCfg(3, false, false)}, Timeout: 10 * time.Minute})
		if err == nil && g3.OK {
			b3, _ := parseFatBehs(g3.Beh)
			for i, b := range b3 {
				if i%5 == int(c.Seed%5) {
					behs = append(behs, b)
				}
			}
		}
		sim, err := tlc.Run(tlc.Opts{Module: "FatTree_Gen", Config: "gen.cfg", Workers: 1, Simulate: "num=60", Depth: 32, Seed: c.Seed, Files: map[string][]byte{"gen.cfg": fatGenCfg(30, true, false)}, Timeout: 10 * time.Minute})
		if err == nil {
			w, _ := parseFatBehs(sim.Beh)
			behs = append(behs, w...)
		}
	}
	// a scripted behaviour that exercises every stamping path once more
	behs = append(behs, []fatOp{{A: "Mkdir", P: "D"}, {A: "Create", P: "D/A"}, {A: "WriteAt", P: "D/A", Off: 0, Len: 5, Tag: 1}, {A: "Trunc", P: "D/A"}, {A: "Append", P: "D/A", Len: 4, Tag: 2},
		{A: "Create", P: "L1"}, {A: "Rename", P: "L1", Q: "L2"}, {A: "Rename", P: "D/A", Q: "D/b"}, {A: "Remove", P: "D/b"}, {A: "Remove", P: "D"}, {A: "Churn", K: 20}})
	firstScripted := len(behs) - 1
	// space released and used again: which clusters the next file gets, and in which order, must not
	// depend on anything but the history
	behs = append(behs, []fatOp{{A: "Create", P: "A"}, {A: "Append", P: "A", Len: 8, Tag: 1}, {A: "Create", P: "b"}, {A: "Append", P: "b", Len: 5, Tag: 2}, {A: "Remove", P: "A"},
		{A: "Create", P: "L1"}, {A: "Append", P: "L1", Len: 8, Tag: 3}, {A: "Remove", P: "b"}, {A: "Append", P: "L1", Len: 5, Tag: 4}, {A: "Create", P: "A"}, {A: "Append", P: "A", Len: 4, Tag: 5},
		{A: "Rename", P: "A", Q: "L1"}, {A: "Create", P: "L2"}, {A: "Append", P: "L2", Len: 8, Tag: 6}, {A: "Trunc", P: "L2"}, {A: "Append", P: "L2", Len: 8, Tag: 7}})
	behs = append(behs, fatHeldScript())
	epochs := []int64{0, 315532799, 1700000001, 4354819205}
	type cfgPair struct{ a, b fatCfg }
	const MiB = 1 << 20
	pairs := []cfgPair{
		{fatCfg{Kind: "fat12", Size: 8192, Start: 0, Names: "plain", Repro: true}, fatCfg{Kind: "fat12", Size: 8192, Start: MiB + 34*512, Names: "plain", Repro: true}}, // first usable sector of a GPT: not 4 KiB / 16 KiB aligned
		{fatCfg{Kind: "fat16", Size: 5 * MiB, Start: 512, Names: "tricky", Repro: true}, fatCfg{Kind: "fat16", Size: 5 * MiB, Start: 0, Names: "tricky", Repro: true}},
		{fatCfg{Kind: "fat32", Size: 51200, Start: 0, Names: "tricky", Repro: true}, fatCfg{Kind: "fat32", Size: 51200, Start: 5<<30 + 63*512, Names: "tricky", Repro: true}}, // legacy MBR alignment (sector 63) beyond 4 GiB
	}
	if c.Tier == "thorough" {
		pairs = append(pairs, cfgPair{fatCfg{Kind: "fat12", Size: 1474560, Start: 0, Names: "tricky", Repro: true}, fatCfg{Kind: "fat12", Size: 1474560, Start: 4096, Names: "tricky", Repro: true}},
			cfgPair{fatCfg{Kind: "fat32", Size: 34 * MiB, Start: MiB, Names: "plain", Repro: true}, fatCfg{Kind: "fat32", Size: 34 * MiB, Start: 0, Names: "plain", Repro: true}})
	}
	// a FAT32 volume whose FAT has more than 65536 entries, in every tier: a share of the behaviours only
	big32 := cfgPair{fatCfg{Kind: "fat32", Size: 34 * MiB, Start: 63 * 512, Names: "plain", Repro: true}, fatCfg{Kind: "fat32", Size: 34 * MiB, Start: 0, Names: "plain", Repro: true}}
	if c.Tier != "thorough" {
		pairs = append(pairs, big32)
	}
	var jobsA, jobsB []map[string]any
	type meta struct {
		pair  int
		epoch int64
		ops   []fatOp
	}
	var metas []meta
	for pi, p := range pairs {
		for bi, ops := range behs {
			if p.a.Size > 2*MiB && bi%4 != 0 && bi < firstScripted {
				continue
			}
			ep := epochs[(bi+pi)%len(epochs)]
			jobsA = append(jobsA, map[string]any{"cfg": p.a, "ops": ops, "epoch": ep})
			jobsB = append(jobsB, map[string]any{"cfg": p.b, "ops": ops, "epoch": ep, "warm": true})
			metas = append(metas, meta{pi, ep, ops})
		}
	}
	if os.Getenv("VERIF_DEBUG") != "" {
		b, _ := json.Marshal(jobsA[:3])
		os.WriteFile("/verif/.work/c14debug.json", b, 0o644)
	}
	resA := runChildren("c14", jobsA, 120*time.Second, 8<<20, 12)
	time.Sleep(2200 * time.Millisecond)
	resB := runChildren("c14", jobsB, 120*time.Second, 8<<20, 12)
	var trace bytes.Buffer
	type loc struct{ job, step int }
	var locs []loc
	for i := range metas {
		a, b := resA[i], resB[i]
		if str(a, "out") != "ok" || str(b, "out") != "ok" {
			c.Broken("run failed for %v: A=%v B=%v", metas[i], a["detail"], b["detail"])
			continue
		}
		sa, sb := a["shas"].([]any), b["shas"].([]any)
		ra, rb := a["res"].([]any), b["res"].([]any)
		if len(sa) != len(sb) {
			c.Broken("runs of different length for %v", metas[i])
			continue
		}
		for s := range sa {
			an := "Create-volume"
			if s > 0 {
				an = metas[i].ops[s-1].A
			}
			ev := map[string]any{"a": an, "shaA": sa[s], "shaB": sb[s], "resA": ra[s], "resB": rb[s]}
			js, _ := json.Marshal(ev)
			trace.Write(js)
			trace.WriteByte('\n')
			locs = append(locs, loc{i, s})
			c.AddEval(1)
		}
		c.Distinct(fmt.Sprintf("%d|%d|%v", metas[i].pair, metas[i].epoch, metas[i].ops))
		if i%(len(metas)/3+1) == 2 {
			c.Sample(map[string]any{"cfgA": pairs[metas[i].pair].a, "cfgB": pairs[metas[i].pair].b, "epoch": metas[i].epoch, "ops": metas[i].ops, "shaA": sa, "shaB": sb})
		}
	}
	if trace.Len() == 0 {
		c.Broken("no FAT reproducibility events")
		return
	}
	tv, err := tlc.ValidateTrace("Repro_Trace", "Repro_Trace.cfg", trace.Bytes(), nil, 20*time.Minute, false)
	if err != nil {
		c.Broken("Repro_Trace: %v", err)
		return
	}
	badJobs := map[int]bool{}
	for _, idx := range tv.Mismatches {
		l := locs[idx-1]
		if badJobs[l.job] {
			continue // report the first diverging call of a behaviour only
		}
		badJobs[l.job] = true
		m := metas[l.job]
		an := "Create"
		if l.step > 0 {
			an = m.ops[l.step-1].A
		}
		sig := "fat-image-differs-after-" + an
		c.Fail([]string{sig}, fmt.Sprintf("%v epoch=%d: images of the two runs first differ after step %d (%s) of %v", pairs[m.pair].a, m.epoch, l.step, an, m.ops),
			map[string]any{"cfgA": pairs[m.pair].a, "cfgB": pairs[m.pair].b, "epoch": m.epoch, "ops": m.ops, "first_diverging_step": l.step, "runA": resA[l.job], "runB": resB[l.job]})
	}
	c.TracesValidated = int64(len(metas) - len(badJobs))
	c.Extra["fat_cases"] = len(metas)
	// ---- tables ----
	sub := core.NewCtx("C14", c.Tier, "model_checking")
	ptRun(sub, "C14")
	c.Absorb(sub)
}
