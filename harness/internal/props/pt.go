package props

import (
	"bytes"
	"encoding/binary"
	"hash/crc32"
	"encoding/hex"
	"encoding/json"
	"fmt"
	"math/rand"
	"sort"
	"strconv"
	"strings"
	"time"
	"unicode/utf16"

	diskfs "github.com/diskfs/go-diskfs"
	"github.com/diskfs/go-diskfs/backend/file"
	"github.com/diskfs/go-diskfs/disk"
	"github.com/diskfs/go-diskfs/partition"
	"github.com/diskfs/go-diskfs/partition/gpt"
	"github.com/diskfs/go-diskfs/partition/mbr"

	"verif/harness/internal/core"
	"verif/harness/internal/fsx"
	"verif/harness/internal/memdev"
	"verif/harness/internal/rawpt"
	"verif/harness/internal/tlc"
)

// Partition-table driver shared by C02 (round trip + on-disk validity), C14 (tables part:
// identical bytes on second write, rewrite of a read table changes nothing) and C03
// (tables part: only the table's own sectors change).  TLC enumerates the shape tuples
// (PartTable_Gen); this file concretises and executes them and records one event per
// tuple; PartTable_Trace judges with the predicate of the property being checked.

type ptTuple struct {
	K string            `json:"k"`
	S map[string]string `json:"s"`
}

func u64s(v uint64) string { return strconv.FormatUint(v, 10) }

func nameHex(s string) string {
	u := utf16.Encode([]rune(s))
	b := make([]byte, 0, 2*len(u))
	for _, w := range u {
		b = append(b, byte(w), byte(w>>8))
	}
	return hex.EncodeToString(b)
}

func ptEntGPT(idx int, start, end uint64, typ, name, guid string, attr uint64) map[string]any {
	return map[string]any{"idx": idx, "start": u64s(start), "end": u64s(end), "type": strings.ToUpper(typ), "name": nameHex(name), "guid": strings.ToUpper(guid), "attr": u64s(attr)}
}

func ptEntMBR(idx int, boot bool, typ int, start, size uint32) map[string]any {
	return map[string]any{"idx": idx, "boot": boot, "type": typ, "start": u64s(uint64(start)), "size": u64s(uint64(size))}
}

func ptDiskSize(cls string, lss int64, count int) int64 {
	arr := 128 * 128 / lss
	switch cls {
	case "min":
		return (2*(2+arr) + int64(count) + 2) * lss
	case "t3":
		return 3 << 40
	}
	return 20 << 20
}

func ptNames(cls string) string {
	switch cls {
	case "empty":
		return ""
	case "ascii":
		return "data"
	case "bmp36":
		return strings.Repeat("я", 36)
	case "nonbmp18":
		return strings.Repeat("😀", 18)
	case "nonbmp19":
		return strings.Repeat("😀", 19)
	case "ascii37":
		return strings.Repeat("x", 37)
	}
	return "n"
}

func ptIndices(cls string, n int) []int {
	idx := make([]int, n)
	for i := range idx {
		idx[i] = i + 1
	}
	switch cls {
	case "sparse":
		switch n {
		case 1:
			idx = []int{5}
		case 2:
			idx = []int{1, 128}
		case 4:
			idx = []int{1, 5, 64, 128}
		}
	case "unordered":
		for i, j := 0, n-1; i < j; i, j = i+1, j-1 {
			idx[i], idx[j] = idx[j], idx[i]
		}
	}
	return idx
}

// buildGPT concretises a GPT shape tuple; returns the table to write and the expected
// normalised view (entries sorted by index).
func ptBuildGPT(r *rand.Rand, s map[string]string) (t *gpt.Table, norm map[string]any, lss int64, size int64) {
	lss, _ = strconv.ParseInt(s["lss"], 10, 64)
	n, _ := strconv.Atoi(s["count"])
	size = ptDiskSize(s["disk"], lss, n)
	sectors := uint64(size / lss)
	arr := uint64(128 * 128 / lss)
	first, last := 2+arr, sectors-2-arr
	t = &gpt.Table{LogicalSectorSize: int(lss), PhysicalSectorSize: int(lss), ProtectiveMBR: true, GUID: randGUID(r)}
	blank := s["guid"] == "blank"
	if blank {
		t.GUID = ""
	}
	idx := ptIndices(s["idx"], n)
	var ents []map[string]any
	span := uint64(1)
	if n > 0 {
		span = (last - first + 1) / uint64(n)
	}
	for i := 0; i < n; i++ {
		start := first + uint64(i)*span
		psz := span
		if span > 3 {
			psz = span - uint64(r.Intn(2))
		}
		end := start + psz - 1
		typ := string(gpt.LinuxFilesystem)
		if s["type"] == "random" {
			typ = randGUID(r)
		}
		attr := map[string]uint64{"zero": 0, "bit0": 1, "bit63": 1 << 63, "all": ^uint64(0)}[s["attr"]]
		name := ptNames(s["name"])
		p := &gpt.Partition{Index: idx[i], Start: start, Type: gpt.Type(typ), Name: name, GUID: randGUID(r), Attributes: attr}
		if blank {
			p.GUID = ""
		}
		switch s["spell"] {
		case "startend":
			p.End = end
		case "startsize":
			p.Size = psz * uint64(lss)
		default:
			p.End, p.Size = end, psz*uint64(lss)
		}
		t.Partitions = append(t.Partitions, p)
		ents = append(ents, ptEntGPT(idx[i], start, end, typ, name, p.GUID, attr))
	}
	sort.Slice(ents, func(i, j int) bool { return ents[i]["idx"].(int) < ents[j]["idx"].(int) })
	if ents == nil {
		ents = []map[string]any{}
	}
	norm = map[string]any{"guid": strings.ToUpper(t.GUID), "parts": ents, "pmbr": fmt.Sprint(t.ProtectiveMBR)}
	return
}

func ptBuildMBR(r *rand.Rand, s map[string]string) (t *mbr.Table, norm map[string]any, lss int64, size int64) {
	lss, _ = strconv.ParseInt(s["lss"], 10, 64)
	n, _ := strconv.Atoi(s["count"])
	size = ptDiskSize(s["disk"], lss, n)
	t = &mbr.Table{LogicalSectorSize: int(lss), PhysicalSectorSize: int(lss)}
	ents := []map[string]any{}
	val := func(c string, i int) uint32 {
		switch c {
		case "one":
			return 1 + uint32(i)
		case "max":
			return 0xFFFFFFFF - uint32(i)
		}
		return 2048 * uint32(i+1)
	}
	typ := map[string]int{"x83": 0x83, "xee": 0xee, "xff": 0xff, "x0c": 0x0c, "x00": 0x00}[s["type"]]
	for i := 0; i < n; i++ {
		p := &mbr.Partition{Index: i + 1, Bootable: s["boot"] == "yes" && i == 0, Type: mbr.Type(typ), Start: val(s["start"], i), Size: val(s["size"], i)}
		t.Partitions = append(t.Partitions, p)
		ents = append(ents, ptEntMBR(i+1, p.Bootable, typ, p.Start, p.Size))
	}
	norm = map[string]any{"guid": "", "parts": ents, "pmbr": "-"}
	return
}

func ptReadBack(d *memdev.Dev, lss int64) map[string]any {
	rd := map[string]any{"res": "err", "kind": "", "guid": "", "parts": []map[string]any{}, "pmbr": "-"}
	var tb partition.Table
	var err error
	if p := fsx.Catch(func() { tb, err = partition.Read(file.New(d, true), int(lss), int(lss)) }); p != "" {
		rd["res"] = "panic"
		return rd
	}
	if err != nil {
		return rd
	}
	rd["res"] = "ok"
	ents := []map[string]any{}
	switch t := tb.(type) {
	case *gpt.Table:
		rd["kind"] = "gpt"
		rd["guid"] = strings.ToUpper(t.GUID)
		rd["pmbr"] = fmt.Sprint(t.ProtectiveMBR)
		for _, p := range t.Partitions {
			ents = append(ents, ptEntGPT(p.Index, p.Start, p.End, string(p.Type), p.Name, p.GUID, p.Attributes))
		}
	case *mbr.Table:
		rd["kind"] = "mbr"
		for i, p := range t.Partitions {
			if p.Type == 0 && p.Start == 0 && p.Size == 0 {
				continue
			}
			_ = i
			ents = append(ents, ptEntMBR(p.Index, p.Bootable, int(p.Type), p.Start, p.Size))
		}
	}
	sort.SliceStable(ents, func(i, j int) bool { return ents[i]["idx"].(int) < ents[j]["idx"].(int) })
	rd["parts"] = ents
	return rd
}

func ptRaw(d *memdev.Dev, kind string, lss int64) map[string]any {
	raw := map[string]any{"bad": []string{}, "guid": "", "parts": []map[string]any{}}
	ents := []map[string]any{}
	if kind == "gpt" {
		g := rawpt.ParseGPT(d, d.Size(), int(lss))
		bad := g.Valid()
		if bad == nil {
			bad = []string{}
		}
		raw["bad"] = bad
		raw["guid"] = g.Primary.GUID
		for _, e := range g.Primary.Entries {
			ents = append(ents, map[string]any{"idx": e.Index, "start": u64s(e.Start), "end": u64s(e.End), "type": e.Type, "name": nameHex(e.Name), "guid": e.GUID, "attr": u64s(e.Attr)})
		}
	} else {
		m := rawpt.ParseMBR(d)
		bad := []string{}
		if !m.Present || !m.SigOK {
			bad = append(bad, "MBR signature")
		}
		raw["bad"] = bad
		for i, s := range m.Slots {
			if s.Type == 0 && s.Start == 0 && s.Size == 0 {
				continue
			}
			if s.Boot != 0 && s.Boot != 0x80 {
				bad = append(bad, "boot flag")
			}
			ents = append(ents, ptEntMBR(i+1, s.Boot == 0x80, int(s.Type), s.Start, s.Size))
		}
		raw["bad"] = bad
	}
	raw["parts"] = ents
	return raw
}

// table sectors: the byte ranges a table write may touch
func ptTableRanges(kind string, lss, size int64) []memdev.Range {
	if kind == "mbr" {
		return []memdev.Range{{Off: 446, Len: 66}}
	}
	arr := int64(128 * 128)
	return []memdev.Range{{Off: 446, Len: 66}, {Off: lss, Len: lss + arr}, {Off: size - lss - arr, Len: lss + arr}}
}

func ptWritePrev(d *memdev.Dev, cls string, lss, size int64, r *rand.Rand) {
	switch cls {
	case "gpt":
		t := genGPT(r, uint64(size/lss), int(lss), 3, nil, true)
		fsx.Catch(func() { t.Write(d, size) })
	case "mbr":
		t := &mbr.Table{LogicalSectorSize: int(lss), PhysicalSectorSize: int(lss), Partitions: []*mbr.Partition{{Index: 1, Type: mbr.Linux, Start: 63, Size: 1000}, {Index: 2, Bootable: true, Type: mbr.Fat32LBA, Start: 2000, Size: 4000}}}
		fsx.Catch(func() { t.Write(d, size) })
	}
}

func ptExec(tp ptTuple, seed int64) map[string]any {
	r := rand.New(rand.NewSource(seed))
	ev := map[string]any{"shape": tp, "kind": tp.K, "res": "err", "same2": false, "rewrite": false, "outside": 0, "prevkept": true,
		"ranges": []any{}, "xranges": []any{}}
	var tbl partition.Table
	var norm map[string]any
	var lss, size int64
	var gt *gpt.Table
	var mt *mbr.Table
	if tp.K == "gpt" {
		gt, norm, lss, size = ptBuildGPT(r, tp.S)
		tbl = gt
	} else {
		mt, norm, lss, size = ptBuildMBR(r, tp.S)
		tbl = mt
	}
	ev["norm"] = norm
	d := memdev.NewPattern(size)
	ptWritePrev(d, tp.S["prev"], lss, size, r)
	before := d.Clone()
	d.ResetLog()
	d.FailOutside = ptTableRanges(tp.K, lss, size)
	var dk *disk.Disk
	var err error
	if p := fsx.Catch(func() {
		dk, err = diskfs.OpenBackend(file.New(d, false), diskfs.WithSectorSize(diskfs.SectorSize(lss)))
		if err == nil {
			err = dk.Partition(tbl)
		}
	}); p != "" {
		ev["res"] = "panic"
		ev["panic"] = p
		ev["rd"] = map[string]any{"res": "err", "kind": "", "guid": "", "parts": []any{}, "pmbr": "-"}
		ev["raw"] = map[string]any{"bad": []string{}, "guid": "", "parts": []any{}}
		return ev
	}
	out := int64(0)
	for _, o := range d.Outside {
		out += o.Len
	}
	ev["outside"] = out
	ev["prevkept"] = bytes.Equal(before.Bytes(0, 446), d.Bytes(0, 446))
	if err != nil {
		ev["errtext"] = err.Error()
		// a refused table must not have changed anything outside the table sectors either
		ev["rd"] = ptReadBack(d, lss)
		ev["raw"] = ptRaw(d, tp.K, lss)
		return ev
	}
	ev["res"] = "ok"
	if tp.K == "gpt" && tp.S["guid"] == "blank" {
		// the identity is whatever Write generated and reports through the table it was given
		norm["guid"] = strings.ToUpper(gt.GUID)
		byIdx := map[int]string{}
		for _, p := range gt.Partitions {
			byIdx[p.Index] = strings.ToUpper(p.GUID)
		}
		for _, e := range norm["parts"].([]map[string]any) {
			e["guid"] = byIdx[e["idx"].(int)]
		}
	}
	ev["rd"] = ptReadBack(d, lss)
	ev["raw"] = ptRaw(d, tp.K, lss)
	// GetPartition ranges on a freshly opened disk
	var ranges, xr []any
	fsx.Catch(func() {
		d2, err := diskfs.OpenBackend(file.New(d, true), diskfs.WithSectorSize(diskfs.SectorSize(lss)))
		if err != nil {
			return
		}
		for _, e := range norm["parts"].([]map[string]any) {
			idx := e["idx"].(int)
			p, err := d2.GetPartition(idx)
			if err != nil {
				ranges = append(ranges, map[string]any{"idx": idx, "start": "missing", "size": "missing"})
				continue
			}
			ranges = append(ranges, map[string]any{"idx": idx, "start": strconv.FormatInt(p.GetStart(), 10), "size": strconv.FormatInt(p.GetSize(), 10)})
		}
	})
	for _, e := range norm["parts"].([]map[string]any) {
		st, _ := strconv.ParseUint(e["start"].(string), 10, 64)
		var sz uint64
		if tp.K == "gpt" {
			en, _ := strconv.ParseUint(e["end"].(string), 10, 64)
			sz = en - st + 1
		} else {
			sz, _ = strconv.ParseUint(e["size"].(string), 10, 64)
		}
		xr = append(xr, map[string]any{"idx": e["idx"], "start": u64s(st * uint64(lss)), "size": u64s(sz * uint64(lss))})
	}
	if ranges == nil {
		ranges = []any{}
	}
	if xr == nil {
		xr = []any{}
	}
	ev["ranges"], ev["xranges"] = ranges, xr
	// second write of the same table (fresh copy of the public fields) must give identical bytes
	after1 := d.Clone()
	d2 := before.Clone()
	same := false
	fsx.Catch(func() {
		var err error
		if tp.K == "gpt" {
			err = cloneGPT(gt).Write(d2, size) // gt now carries the GUIDs of the first write
		} else {
			err = mt.Write(d2, size)
		}
		same = err == nil && devEqual(after1, d2, ptTableRanges(tp.K, lss, size))
	})
	ev["same2"] = same
	// rewrite of the table read from disk changes nothing
	rew := false
	fsx.Catch(func() {
		tb, err := partition.Read(file.New(d, true), int(lss), int(lss))
		if err != nil {
			return
		}
		d.ResetLog()
		if err := tb.Write(d, size); err != nil {
			return
		}
		rew = devEqual(after1, d, ptTableRanges(tp.K, lss, size)) && devEqual(after1, d, extentsOf(d))
	})
	ev["rewrite"] = rew
	return ev
}

func extentsOf(d *memdev.Dev) []memdev.Range { return memdev.Extents(d.Log()) }

func devEqual(a, b *memdev.Dev, rs []memdev.Range) bool {
	for _, r := range rs {
		if !bytes.Equal(a.Bytes(r.Off, r.Len), b.Bytes(r.Off, r.Len)) {
			return false
		}
	}
	return true
}

// ptRun generates tuples with TLC, executes them, and judges with PartTable_Trace for prop.
func ptRun(c *core.Ctx, prop string) {
	maxDev := 2
	if c.Tier == "thorough" {
		maxDev = 3
	}
	cfg := fmt.Sprintf("SPECIFICATION Spec\nCONSTANT MaxDev = %d\nINVARIANT Emit\nCHECK_DEADLOCK FALSE\n", maxDev)
	gen, err := tlc.Run(tlc.Opts{Module: "PartTable_Gen", Config: "gen.cfg", Workers: 1, Files: map[string][]byte{"gen.cfg": []byte(cfg)}, Timeout: 15 * time.Minute})
	if err != nil || !gen.OK {
		c.Broken("PartTable_Gen: %v", err)
		return
	}
	c.States, c.Transitions = gen.Distinct, gen.Generated
	c.Exhaustive = true
	var tuples []ptTuple
	seen := map[string]bool{}
	for _, l := range gen.Beh {
		if seen[l] {
			continue
		}
		seen[l] = true
		var t ptTuple
		if err := json.Unmarshal([]byte(l), &t); err != nil {
			c.Broken("bad tuple %q", l)
			return
		}
		tuples = append(tuples, t)
	}
	sort.Slice(tuples, func(i, j int) bool { a, _ := json.Marshal(tuples[i]); b, _ := json.Marshal(tuples[j]); return string(a) < string(b) })
	events := make([]map[string]any, len(tuples))
	parallel(len(tuples), func(i int) { events[i] = ptExec(tuples[i], c.Seed*1000003+int64(i)) })
	var trace bytes.Buffer
	accepted := 0
	for i, ev := range events {
		js, _ := json.Marshal(ev)
		trace.Write(js)
		trace.WriteByte('\n')
		c.AddEval(1)
		if ev["res"] == "ok" {
			accepted++
			c.Distinct(fmt.Sprint(tuples[i]))
		}
		if i%97 == 5 {
			c.Sample(map[string]any{"shape": tuples[i], "res": ev["res"], "rd": ev["rd"], "ranges": ev["ranges"], "raw_bad": ev["raw"].(map[string]any)["bad"], "same2": ev["same2"], "rewrite": ev["rewrite"], "outside": ev["outside"]})
		}
	}
	if accepted == 0 {
		c.Broken("no table was accepted by Write (vacuous)")
	}
	c.Extra["tuples"] = len(tuples)
	c.Extra["accepted_by_write"] = accepted
	tv, err := tlc.ValidateTrace("PartTable_Trace", "PartTable_Trace_"+prop+".cfg", trace.Bytes(), nil, 20*time.Minute, false)
	if err != nil {
		c.Broken("PartTable_Trace: %v", err)
		return
	}
	for _, idx := range tv.Mismatches {
		ev := events[idx-1]
		sigs, detail := ptSigs(prop, tuples[idx-1], ev)
		c.Fail(sigs, detail, map[string]any{"tuple": tuples[idx-1], "event": ev})
	}
	c.TracesValidated = int64(len(events) - len(tv.Mismatches))
}

// ptSigs classifies a rejected event (diagnostic; ids usable in known_findings.json).
func ptSigs(prop string, tp ptTuple, ev map[string]any) ([]string, string) {
	k := tp.K
	js, _ := json.Marshal(tp)
	switch prop {
	case "C02":
		if ev["res"] == "panic" {
			return []string{k + "-write-panic-name-" + tp.S["name"]}, fmt.Sprintf("Disk.Partition panics for %s: %v", js, ev["panic"])
		}
		rd := ev["rd"].(map[string]any)
		raw := ev["raw"].(map[string]any)
		norm := ev["norm"].(map[string]any)
		eq := func(a, b any) bool { x, _ := json.Marshal(a); y, _ := json.Marshal(b); return string(x) == string(y) }
		switch {
		case rd["res"] != "ok" || rd["kind"] != k:
			sig := fmt.Sprintf("%s-over-%s-read-as-%v-%v", k, tp.S["prev"], rd["res"], rd["kind"])
			if tp.S["count"] == "0" || (k == "mbr" && tp.S["type"] == "x00") {
				// no entry, or only entries with the type byte of an unused slot: an MBR without partitions of its own
				sig += "-empty-table"
			}
			return []string{sig}, fmt.Sprintf("table %s written ok but partition.Read gives res=%v kind=%v", js, rd["res"], rd["kind"])
		case !eq(rd["parts"], norm["parts"]) || (k == "gpt" && rd["guid"] != norm["guid"]):
			return []string{k + "-roundtrip-differs"}, fmt.Sprintf("table %s reads back differently: wrote %v, read %v", js, trunc(norm), trunc(rd))
		case len(raw["bad"].([]string)) > 0:
			bad := raw["bad"].([]string)
			sig := k + "-invalid-on-disk"
			if len(bad) == 1 && strings.HasPrefix(bad[0], "protective MBR covers") {
				sig = "gpt-pmbr-size-not-clamped"
			}
			return []string{sig}, fmt.Sprintf("table %s: independent parser finds invalid on-disk structure: %v", js, bad)
		case !eq(raw["parts"], norm["parts"]):
			return []string{k + "-raw-entries-differ"}, fmt.Sprintf("table %s: independent parser decodes different entries: %v vs %v", js, trunc(raw["parts"]), trunc(norm["parts"]))
		case !eq(ev["ranges"], ev["xranges"]):
			return []string{k + "-getpartition-range-lss" + tp.S["lss"]}, fmt.Sprintf("table %s: Disk.GetPartition ranges %v, expected %v", js, trunc(ev["ranges"]), trunc(ev["xranges"]))
		}
		return []string{k + "-c02-other"}, fmt.Sprintf("table %s: %v", js, trunc(ev))
	case "C14":
		if ev["same2"] != true {
			return []string{k + "-second-write-differs"}, fmt.Sprintf("table %s: writing the same table twice gives different bytes", js)
		}
		return []string{k + "-rewrite-changes-bytes"}, fmt.Sprintf("table %s: rewriting the table read from disk changes bytes", js)
	case "C03":
		if ev["prevkept"] != true {
			return []string{k + "-table-write-touches-boot-code"}, fmt.Sprintf("table %s: bytes 0..445 changed", js)
		}
		return []string{k + "-table-write-outside-table-sectors"}, fmt.Sprintf("table %s: %v bytes written outside the table's sectors", js, ev["outside"])
	}
	return nil, ""
}

func trunc(v any) string {
	b, _ := json.Marshal(v)
	if len(b) > 400 {
		return string(b[:400]) + "…"
	}
	return string(b)
}

func C02(c *core.Ctx) {
	c.Rule = "case = one shape tuple of PartTable.tla (GPT: count x index layout x start/end/size spelling x name class x attribute bits x type x disk size incl. 3 TiB sparse x sector size x previous content; MBR: count x type x start x size x boot x disk x sector x previous), all tuples deviating from the base tuple in <= 2 (quick) / 3 (thorough) dimensions, enumerated by TLC; non-trivial = Write accepted the table (distinct key = tuple)"
	c.Assumptions = []string{"independent GPT/MBR parser (harness/internal/rawpt) with its own CRC32 and GUID decoding", "numbers >= 2^31 are carried as decimal strings and only compared by TLC", "GetPartition ranges are taken from a freshly opened disk (table read from the bytes)"}
	ptRun(c, "C02")
}

// ---- foreign tables that are adapted to the device (C03) ----
// A GPT written by another tool may hold any number of entries of 128 bytes or more (UEFI asks for at least
// 16 KiB): the array then need not be a whole number of sectors (130 entries = 32.5 sectors of 512 bytes).
// The class: such a table (count 129 / 130 / 136 / 192) is read, adapted to the device with Repair or Resize
// (or left as read), its last partition is stretched to LastDataSector() - the last sector the table itself
// offers for data - and the table is written.  C03: not one byte of a partition's range is written.
func ptForeignRegrow(c *core.Ctx) {
	const lss = 512
	type fcase struct {
		Count int
		Adapt string // none | repair | resize | grow (Resize to a device that became larger)
	}
	var cases []fcase
	for _, n := range []int{128, 129, 130, 136, 192} {
		for _, a := range []string{"none", "repair", "resize", "grow"} {
			cases = append(cases, fcase{n, a})
		}
	}
	accepted := 0
	for ci, fc := range cases {
		size := int64(20 << 20)
		d := memdev.NewPattern(size + 4<<20)
		d.SetSize(size)
		r := rand.New(rand.NewSource(c.Seed*7919 + int64(ci)))
		base := &gpt.Table{LogicalSectorSize: lss, PhysicalSectorSize: lss, ProtectiveMBR: true, GUID: randGUID(r), Partitions: []*gpt.Partition{
			{Index: 1, Start: 2048, End: 4095, Type: gpt.LinuxFilesystem, Name: "one", GUID: randGUID(r)},
			{Index: 2, Start: 8192, End: 16383, Type: gpt.LinuxFilesystem, Name: "two", GUID: randGUID(r)}}}
		if err := base.Write(d, size); err != nil {
			c.Broken("foreign-regrow: base table not written: %v", err)
			return
		}
		// re-shape both copies to fc.Count entries (independent of the library)
		sectors := uint64(size / lss)
		arrSectors := uint64((fc.Count*128 + lss - 1) / lss)
		arr := make([]byte, arrSectors*lss)
		copy(arr, d.Bytes(2*lss, 128*128))
		arr = arr[:arrSectors*lss]
		for i := fc.Count * 128; i < len(arr); i++ {
			arr[i] = 0
		}
		secArr := sectors - 1 - arrSectors
		d.WriteAt(arr, 2*lss)
		d.WriteAt(arr, int64(secArr)*lss)
		for _, hoff := range []int64{lss, size - lss} {
			h := d.Bytes(hoff, lss)
			binary.LittleEndian.PutUint64(h[40:48], 2+arrSectors) // first usable
			binary.LittleEndian.PutUint64(h[48:56], secArr-1)     // last usable
			if hoff != lss {
				binary.LittleEndian.PutUint64(h[72:80], secArr)
			}
			binary.LittleEndian.PutUint32(h[80:84], uint32(fc.Count))
			binary.LittleEndian.PutUint32(h[88:92], crc32.ChecksumIEEE(arr[:fc.Count*128]))
			binary.LittleEndian.PutUint32(h[16:20], 0)
			binary.LittleEndian.PutUint32(h[16:20], crc32.ChecksumIEEE(h[0:92]))
			d.WriteAt(h, hoff)
		}
		var tb *gpt.Table
		var err error
		if p := fsx.Catch(func() { tb, err = gpt.Read(file.New(d, true), lss, lss) }); p != "" || err != nil || tb == nil {
			c.Extra[fmt.Sprintf("foreign_regrow_%d_%s", fc.Count, fc.Adapt)] = fmt.Sprintf("not read: %v %v", err, p)
			continue
		}
		devSize := size
		switch fc.Adapt {
		case "repair":
			err = tb.Repair(uint64(devSize))
		case "resize":
			tb.Resize(uint64(devSize))
		case "grow":
			devSize = size + 4<<20
			d.SetSize(devSize)
			tb.Resize(uint64(devSize))
		}
		if err != nil || len(tb.Partitions) == 0 {
			continue
		}
		var last *gpt.Partition
		for _, p := range tb.Partitions {
			if p.Start != 0 && (last == nil || p.Start > last.Start) {
				last = p
			}
		}
		if last == nil {
			continue
		}
		last.End = tb.LastDataSector()
		last.Size = (last.End - last.Start + 1) * lss
		type rng struct{ lo, hi int64 }
		var data []rng
		for _, p := range tb.Partitions {
			if p.Start != 0 {
				data = append(data, rng{int64(p.Start) * lss, int64(p.End+1) * lss})
			}
		}
		before := d.Clone()
		d.ResetLog()
		var werr error
		pan := fsx.Catch(func() { werr = tb.Write(d, devSize) })
		c.AddEval(1)
		if pan != "" {
			c.Fail([]string{"gpt-foreign-table-write-panic"}, fmt.Sprintf("foreign GPT with %d entries, adapted by %s: Write panics: %s", fc.Count, fc.Adapt, pan), fc)
			continue
		}
		hit, first := int64(0), int64(-1)
		for _, w := range extentsOf(d) {
			for _, pr := range data {
				lo, hi := max(w.Off, pr.lo), min(w.Off+w.Len, pr.hi)
				if lo < hi {
					hit += hi - lo
					if first < 0 || lo < first {
						first = lo
					}
				}
			}
		}
		changed := !bytes.Equal(before.Bytes(0, 446), d.Bytes(0, 446))
		if hit > 0 || changed {
			c.Fail([]string{"gpt-table-write-into-partition-data"}, fmt.Sprintf("foreign GPT with %d entries of 128 bytes, adapted by %s, last partition ends on LastDataSector()=%d: Write (err %v) wrote %d bytes inside partition ranges (first at byte %d = sector %d), boot code changed: %v", fc.Count, fc.Adapt, tb.LastDataSector(), werr, hit, first, first/lss, changed),
				map[string]any{"case": fc, "last_data_sector": tb.LastDataSector(), "bytes_in_partitions": hit, "first": first})
			continue
		}
		if werr == nil {
			accepted++
			c.Distinct(fmt.Sprintf("foreign-regrow %+v", fc))
		}
	}
	c.Extra["foreign_regrow_cases"] = len(cases)
	c.Extra["foreign_regrow_written"] = accepted
	if accepted == 0 {
		c.Broken("foreign-regrow: no adapted foreign table was written (vacuous)")
	}
}

// PtForeign is a development entry (not registered): the foreign-regrow class alone.
func PtForeign(c *core.Ctx) { ptForeignRegrow(c) }
