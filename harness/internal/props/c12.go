package props

import (
	"fmt"
	"os"
	"strings"
	"sync"

	diskfs "github.com/diskfs/go-diskfs"
	"github.com/diskfs/go-diskfs/backend/file"
	"github.com/diskfs/go-diskfs/disk"
	"github.com/diskfs/go-diskfs/filesystem"
	"github.com/diskfs/go-diskfs/filesystem/iso9660"
	"github.com/diskfs/go-diskfs/filesystem/squashfs"
	"github.com/diskfs/go-diskfs/partition/gpt"
	"github.com/diskfs/go-diskfs/partition/mbr"

	"verif/harness/internal/core"
	"verif/harness/internal/fsx"
	"verif/harness/internal/memdev"
	"verif/harness/internal/tlc"
)

// C12 — existing filesystems and tables are recognised as what they are (Probe.tla).

var c12Types = map[string]filesystem.Type{"fat12": filesystem.TypeFat12, "fat16": filesystem.TypeFat16, "fat32": filesystem.TypeFat32, "ext4": filesystem.TypeExt4, "iso": filesystem.TypeISO9660, "squashfs": filesystem.TypeSquashfs}

func c12TypeName(t filesystem.Type) string {
	for k, v := range c12Types {
		if v == t {
			return k
		}
	}
	return fmt.Sprintf("type%d", int(t))
}

const c12Marker = "HELLO.TXT"

// c12Create makes a filesystem of type T on partition part (0 = whole disk) of the device.
func c12Create(d *memdev.Dev, T string, part int, label string) (err error) {
	dk, err := diskfs.OpenBackend(file.New(d, false), diskfs.WithOpenMode(diskfs.ReadWrite))
	if err != nil {
		return err
	}
	if part != 0 {
		// the table is read with the disk's real sector size ...
		if _, err := dk.GetPartitionTable(); err != nil {
			return fmt.Errorf("no table: %w", err)
		}
	}
	// ... and only then is the block size the filesystem is to use set, as examples/iso_create.go does
	switch T {
	case "iso":
		dk.LogicalBlocksize = 2048
	case "squashfs":
		dk.LogicalBlocksize = 4096
	}
	var fs filesystem.FileSystem
	if p := fsx.Catch(func() {
		fs, err = dk.CreateFilesystem(disk.FilesystemSpec{Partition: part, FSType: c12Types[T], VolumeLabel: label})
	}); p != "" {
		return fmt.Errorf("panic in CreateFilesystem: %s", p)
	}
	if err != nil {
		return err
	}
	if err := fsx.WriteFile(fs, c12Marker, []byte("marker of "+T+" "+label)); err != nil {
		return fmt.Errorf("marker: %w", err)
	}
	switch f := fs.(type) {
	case *iso9660.FileSystem:
		ws := f.Workspace()
		err = f.Finalize(iso9660.FinalizeOptions{RockRidge: true, VolumeIdentifier: label})
		os.RemoveAll(ws)
	case *squashfs.FileSystem:
		ws := f.Workspace()
		err = f.Finalize(squashfs.FinalizeOptions{})
		os.RemoveAll(ws)
	}
	return err
}

var c12Limits sync.Map // type -> [2]int64 (min, max accepted size)

// c12Threshold finds the smallest / largest size (multiple of 512) type T's Create accepts
// on a whole device, searching [16 KiB, 600 MiB] (acceptance is monotone between the bounds).
func c12Threshold(T string) [2]int64 {
	if v, ok := c12Limits.Load(T); ok {
		return v.([2]int64)
	}
	ok := func(sz int64) bool {
		d := memdev.New(sz)
		_, err := fsx.CreateOn(T, d, fsx.Opt{Size: sz})
		return err == nil
	}
	mid := int64(8 << 20)
	lo, hi := int64(16<<10), mid // smallest accepted in (lo, hi]
	for hi-lo > 512 {
		m := (lo + hi) / 2 / 512 * 512
		if ok(m) {
			hi = m
		} else {
			lo = m
		}
	}
	min := hi
	lo, hi = mid, int64(600<<20) // largest accepted in [lo, hi)
	if ok(hi) {
		lo = hi
	} else {
		for hi-lo > 512 {
			m := (lo + hi) / 2 / 512 * 512
			if ok(m) {
				lo = m
			} else {
				hi = m
			}
		}
	}
	r := [2]int64{min, lo}
	c12Limits.Store(T, r)
	return r
}

func c12Exec(t map[string]any, idx int) map[string]any {
	ev := map[string]any{"want": "none", "got": "none", "label": "", "wantlabel": "", "content": false, "table": "none", "wanttable": "none", "panic": ""}
	place, szc := str(t, "place"), str(t, "size")
	var hist []string
	if h, ok := t["hist"].([]any); ok {
		for _, x := range h {
			hist = append(hist, fmt.Sprint(x))
		}
	}
	// 16 MiB is a size every one of the six types accepts through the Disk API
	partSize := int64(16 << 20)
	if szc != "mid" && len(hist) > 0 {
		last := hist[len(hist)-1]
		if last == "iso" || last == "squashfs" {
			partSize = 16 << 20
		} else {
			lim := c12Threshold(last)
			partSize = lim[0]
			if szc == "tmax" {
				partSize = lim[1]
			}
		}
	}
	ev["partsize"] = partSize
	start := int64(0)
	part := 0
	devSize := partSize
	if place != "whole" {
		start = 2048 * 512
		part = 1
		// the partition ends on the last usable sector of a GPT ("use the rest of the disk"): 33 sectors
		// of backup array and header follow it
		devSize = start + partSize + 33*512
	}
	d := memdev.New(devSize)
	if place != "whole" {
		dk, err := diskfs.OpenBackend(file.New(d, false), diskfs.WithOpenMode(diskfs.ReadWrite))
		if err != nil {
			ev["setup"] = err.Error()
			return ev
		}
		if place == "gpt" {
			err = dk.Partition(&gpt.Table{LogicalSectorSize: 512, PhysicalSectorSize: 512, ProtectiveMBR: true, Partitions: []*gpt.Partition{{Index: 1, Start: 2048, End: uint64(2048 + partSize/512 - 1), Type: gpt.LinuxFilesystem, Name: "p1"}}})
		} else {
			err = dk.Partition(&mbr.Table{LogicalSectorSize: 512, PhysicalSectorSize: 512, Partitions: []*mbr.Partition{{Index: 1, Type: mbr.Linux, Start: 2048, Size: uint32(partSize / 512)}}})
		}
		if err != nil {
			ev["setup"] = "partition: " + err.Error()
			return ev
		}
		ev["wanttable"] = place
	}
	created := []string{}
	want, wantLabel := "none", ""
	for i, T := range hist {
		label := fmt.Sprintf("VERIF%d", i+1)
		if err := c12Create(d, T, part, label); err != nil {
			// a refused Create may have written part of its structures: what the range holds now is
			// outside the statement (it speaks of filesystems that were created)
			created = append(created, T+":refused("+err.Error()+")")
			ev["undefined"] = true
			continue
		}
		created = append(created, T+":ok")
		want, wantLabel = T, label
		if T == "squashfs" {
			wantLabel = "" // squashfs has no label
		}
	}
	ev["created"] = created
	ev["want"], ev["wantlabel"] = want, wantLabel
	if ev["undefined"] == true {
		// nothing is demanded of this case; record it as trivially fine
		ev["got"], ev["label"], ev["content"], ev["table"] = want, wantLabel, true, ev["wanttable"]
		return ev
	}
	// a freshly opened disk, default options, read-only
	if p := fsx.Catch(func() {
		dk, err := diskfs.OpenBackend(file.New(d, true))
		if err != nil {
			ev["got"] = "open-error"
			return
		}
		if tb, err := dk.GetPartitionTable(); err == nil && place != "whole" {
			ev["table"] = tb.Type() // (a whole-disk FAT boot sector also parses as an MBR: not part of the statement)
		}
		fs, err := dk.GetFilesystem(part)
		if err != nil {
			ev["geterr"] = err.Error()
			return
		}
		ev["got"] = c12TypeName(fs.Type())
		ev["label"] = strings.TrimRight(fs.Label(), " \x00")
		if b, err := fs.ReadFile(c12Marker); err == nil && strings.HasPrefix(string(b), "marker of "+want+" ") {
			ev["content"] = true
		} else {
			ev["contenterr"] = fmt.Sprintf("%v %q", err, b)
		}
	}); p != "" {
		ev["panic"] = p
	}
	return ev
}

func C12(c *core.Ctx) {
	c.Rule = "case = (placement {whole disk, GPT partition, MBR partition}, history of 0..D CreateFilesystem calls over {fat12,fat16,fat32,ext4,iso9660,squashfs} on the same range (stale bytes of the previous type stay), size class {8 MiB, smallest size the last type accepts, largest size it accepts up to 600 MiB}), all enumerated by TLC (D = 2 quick, 3 thorough); the disk is re-opened read-only with default options and GetFilesystem / GetPartitionTable are asked; non-trivial = at least one Create accepted (distinct key = tuple); plus a disk with 4096-byte logical sectors (fat32 / squashfs on the whole disk and in a GPT partition, on blank bytes and over a previous filesystem); plus the composition behaviours of Disk.tla (three slots, GPT/MBR tables naming subsets of them, filesystems of all six types created, populated, raw-copied and overwritten; after every call every named slot must report the type, label and files the model predicts and the table must be the one written)"
	c.Assumptions = []string{"ISO9660 / squashfs are created the documented way (LogicalBlocksize set to 2048 / 4096 for CreateFilesystem); labels are compared right-trimmed; squashfs has no label", "size thresholds found by bisection of Create's acceptance in [16 KiB, 600 MiB]"}
	mc, err := tlc.Run(tlc.Opts{Module: "Probe", Config: "Probe_MC.cfg", Workers: 2})
	if err != nil {
		c.Broken("Probe MC: %v", err)
		return
	}
	c.Extra["model_check"] = map[string]any{"ok": mc.OK, "violated": mc.Violated, "note": "a violation here is the overlay model PREDICTING a stale-signature misdetection; the replay decides"}
	D := 2
	if c.Tier == "thorough" {
		D = 3
	}
	ts := tupleSpace{GenModule: "Probe_Gen", GenCfg: fmt.Sprintf("SPECIFICATION GSpec\nCONSTANT D = %d\nINVARIANT Emit\nCHECK_DEADLOCK FALSE\n", D),
		TraceModule: "Probe_Trace", TraceCfg: "Probe_Trace.cfg", Exec: c12Exec,
		NonTrivial: func(t, ev map[string]any) bool { return ev["want"] != "none" && ev["undefined"] != true },
		Sig: func(t, ev map[string]any, detail string) ([]string, string) {
			sig := fmt.Sprintf("probe-%v-read-as-%v", ev["want"], ev["got"])
			switch {
			case ev["panic"] != "":
				sig = "probe-panic"
			case ev["table"] != ev["wanttable"]:
				sig = fmt.Sprintf("table-%v-read-as-%v", ev["wanttable"], ev["table"])
			case ev["got"] == ev["want"] && ev["label"] != ev["wantlabel"]:
				sig = fmt.Sprintf("probe-%v-label", ev["want"])
			case ev["got"] == ev["want"]:
				sig = fmt.Sprintf("probe-%v-content", ev["want"])
			}
			if s := str(t, "size"); s != "mid" {
				sig += "-" + s
			}
			brief := map[string]any{}
			for k, v := range ev {
				if k != "shape" {
					brief[k] = v
				}
			}
			return []string{sig}, fmt.Sprintf("probe %s: %s", js(t), trunc(brief))
		}}
	tuples, events := ts.run(c)
	c.States += mc.Distinct
	for i, e := range events {
		if e["setup"] != nil {
			c.Broken("setup failed for %s: %v", js(tuples[i]), e["setup"])
		}
	}
	lim := map[string]any{}
	c12Limits.Range(func(k, v any) bool { lim[k.(string)] = v; return true })
	c.Extra["create_size_limits"] = lim
	// the composition (Disk.tla): several partitions, filesystems created / rebuilt / copied in them,
	// the table rewritten in between (table, fs and result clauses of Disk_Trace)
	dkRunAll(c, "C12")
	// disks with 4096-byte logical sectors
	c12Sector4k(c)
}

// C12Sector4k is a development entry (not registered): the 4096-byte-sector class alone.
func C12Sector4k(c *core.Ctx) { c12Sector4k(c) }

// c12Sector4k: the same question on a disk with 4096-byte logical sectors (diskfs.WithSectorSize(4096)): every
// type that can be created there - whole disk and in a GPT partition, on blank bytes and over a finalized
// squashfs - must be reported as what it is, with label and marker, by a freshly opened disk.
func c12Sector4k(c *core.Ctx) {
	const lss, size = 4096, 64 << 20
	type k4 struct{ T, Place, Prev string }
	var cases []k4
	for _, T := range []string{"fat32", "squashfs"} { // ext4.Create refuses 4096-byte sectors
		for _, pl := range []string{"whole", "gpt"} {
			for _, prev := range []string{"blank", "squashfs", "fat32"} {
				if prev != T {
					cases = append(cases, k4{T, pl, prev})
				}
			}
		}
	}
	created := 0
	refused := map[string]string{}
	for _, kc := range cases {
		d := memdev.New(size)
		part := 0
		var setupErr error
		mk := func(T, label string) error {
			dk, err := diskfs.OpenBackend(file.New(d, false), diskfs.WithOpenMode(diskfs.ReadWrite), diskfs.WithSectorSize(diskfs.SectorSize4k))
			if err != nil {
				return err
			}
			if part != 0 {
				if _, err := dk.GetPartitionTable(); err != nil {
					return fmt.Errorf("no table: %w", err)
				}
			}
			var fs filesystem.FileSystem
			if p := fsx.Catch(func() {
				fs, err = dk.CreateFilesystem(disk.FilesystemSpec{Partition: part, FSType: c12Types[T], VolumeLabel: label})
			}); p != "" {
				return fmt.Errorf("panic in CreateFilesystem: %s", p)
			}
			if err != nil {
				return err
			}
			if err := fsx.WriteFile(fs, c12Marker, []byte("marker of "+T+" "+label)); err != nil {
				return fmt.Errorf("marker: %w", err)
			}
			if f, ok := fs.(*squashfs.FileSystem); ok {
				ws := f.Workspace()
				err = f.Finalize(squashfs.FinalizeOptions{})
				os.RemoveAll(ws)
			}
			return err
		}
		if kc.Place == "gpt" {
			part = 1
			fsx.Catch(func() {
				dk, err := diskfs.OpenBackend(file.New(d, false), diskfs.WithOpenMode(diskfs.ReadWrite), diskfs.WithSectorSize(diskfs.SectorSize4k))
				if err != nil {
					setupErr = err
					return
				}
				setupErr = dk.Partition(&gpt.Table{LogicalSectorSize: lss, PhysicalSectorSize: lss, ProtectiveMBR: true, Partitions: []*gpt.Partition{{Index: 1, Start: 256, End: 256 + (48<<20)/lss - 1, Type: gpt.LinuxFilesystem, Name: "p1"}}})
			})
			if setupErr != nil {
				c.Broken("sector4k: table not written: %v", setupErr)
				return
			}
		}
		key := fmt.Sprintf("%s/%s/over-%s", kc.T, kc.Place, kc.Prev)
		if kc.Prev != "blank" {
			if err := mk(kc.Prev, "OLDVOL"); err != nil {
				refused[key] = "previous: " + err.Error()
				continue
			}
		}
		if err := mk(kc.T, "NEWVOL"); err != nil {
			refused[key] = err.Error()
			continue
		}
		created++
		c.AddEval(1)
		c.Distinct("sector4k " + key)
		got, label, marker, perr := "", "", "", ""
		perr = fsx.Catch(func() {
			dk, err := diskfs.OpenBackend(file.New(d, true), diskfs.WithSectorSize(diskfs.SectorSize4k))
			if err != nil {
				got = "open-error: " + err.Error()
				return
			}
			fs, err := dk.GetFilesystem(part)
			if err != nil {
				got = "error: " + err.Error()
				return
			}
			got = c12TypeName(fs.Type())
			label = strings.TrimRight(fs.Label(), " ")
			if b, err := fs.ReadFile(c12Marker); err == nil {
				marker = string(b)
			} else {
				marker = "error: " + err.Error()
			}
		})
		wantLabel := "NEWVOL"
		if kc.T == "squashfs" {
			wantLabel = ""
		}
		switch {
		case perr != "":
			c.Fail([]string{"probe-panic-sector4096"}, fmt.Sprintf("4096-byte sectors, %s: GetFilesystem panics: %s", key, perr), kc)
		case got != kc.T:
			c.Fail([]string{fmt.Sprintf("probe-%s-read-as-other-sector4096", kc.T)}, fmt.Sprintf("4096-byte sectors, %s: GetFilesystem on a freshly opened disk reports %q", key, got), kc)
		case label != wantLabel:
			c.Fail([]string{fmt.Sprintf("probe-%s-label-sector4096", kc.T)}, fmt.Sprintf("4096-byte sectors, %s: label %q, expected %q", key, label, wantLabel), kc)
		case marker != "marker of "+kc.T+" NEWVOL":
			c.Fail([]string{fmt.Sprintf("probe-%s-content-sector4096", kc.T)}, fmt.Sprintf("4096-byte sectors, %s: marker file reads %q", key, marker), kc)
		default:
			c.TracesValidated++
		}
	}
	c.Extra["sector4k_cases"] = len(cases)
	c.Extra["sector4k_created"] = created
	c.Extra["sector4k_refused"] = refused
	if created*2 < len(cases) {
		c.Broken("sector4k: only %d of %d cases could be created (vacuous): %v", created, len(cases), refused)
	}
}
