package props

import (
	"encoding/binary"
	"fmt"
	"hash/crc32"
	"math/rand"
	"strconv"
	"time"

	"github.com/diskfs/go-diskfs/backend/file"
	"github.com/diskfs/go-diskfs/partition"
	"github.com/diskfs/go-diskfs/partition/gpt"
	"github.com/diskfs/go-diskfs/partition/mbr"

	"verif/harness/internal/core"
	"verif/harness/internal/fsx"
	"verif/harness/internal/memdev"
	"verif/harness/internal/rawpt"
)

// C15 — reading a partition table from untrusted bytes cannot crash (GptParse.tla).

var c15Off = map[string][2]int{"sig": {0, 8}, "rev": {8, 4}, "hsize": {12, 4}, "hcrc": {16, 4}, "reserved": {20, 4}, "mylba": {24, 8}, "altlba": {32, 8},
	"first": {40, 8}, "last": {48, 8}, "arrlba": {72, 8}, "count": {80, 4}, "esize": {84, 4}, "arrcrc": {88, 4}}

func c15Val(cls string, width int, sectors uint64) uint64 {
	if width == 4 {
		return map[string]uint64{"zero": 0, "one": 1, "max": 0xFFFFFFFF, "maxm1": 0xFFFFFFFE, "sign": 0x80000000, "ovf": 1 << 25, "dev": sectors, "wrap": 0xFFFFFFFF}[cls]
	}
	return map[string]uint64{"zero": 0, "one": 1, "max": ^uint64(0), "maxm1": ^uint64(0) - 1, "sign": 1 << 63, "ovf": 1 << 55, "dev": sectors, "wrap": 1 << 55}[cls]
}

func c15Base(lss int64) (*memdev.Dev, int64) {
	size := int64(10 << 20)
	if lss == 4096 {
		size = 48 << 20
	}
	d := memdev.New(size)
	r := rand.New(rand.NewSource(42))
	t := genGPT(r, uint64(size/lss), int(lss), 3, nil, true)
	if err := t.Write(d, size); err != nil {
		panic(err)
	}
	return d, size
}

func c15Patch(d *memdev.Dev, hdrOff int64, lss int64, field, val string, fix bool, sectors uint64) {
	h := d.Bytes(hdrOff, lss)
	o := c15Off[field]
	if field == "sig" {
		switch val {
		case "zero":
			copy(h[0:8], make([]byte, 8))
		default:
			h[int(c15Val(val, 4, sectors)%8)] ^= 0x20
		}
	} else if o[1] == 4 {
		binary.LittleEndian.PutUint32(h[o[0]:], uint32(c15Val(val, 4, sectors)))
	} else {
		binary.LittleEndian.PutUint64(h[o[0]:], c15Val(val, 8, sectors))
	}
	if val == "wrap" && field == "arrlba" {
		c15WrapLBA(h, lss)
	}
	if fix && field != "hcrc" {
		binary.LittleEndian.PutUint32(h[16:20], 0)
		binary.LittleEndian.PutUint32(h[16:20], crc32.ChecksumIEEE(h[0:92]))
	}
	d.WriteAt(h, hdrOff)
}

// c15WrapLBA sets the array LBA so that LBA*lss + count*esize wraps around 2^64 to a value < lss.
func c15WrapLBA(h []byte, lss int64) {
	count := uint64(binary.LittleEndian.Uint32(h[80:84]))
	esize := uint64(binary.LittleEndian.Uint32(h[84:88]))
	t := count * esize
	// want lba*lss = 2^64 - t + r with 0 <= r < lss and divisible by lss
	x := -t // 2^64 - t
	r := (uint64(lss) - x%uint64(lss)) % uint64(lss)
	binary.LittleEndian.PutUint64(h[72:80], (x+r)/uint64(lss))
}

func c15Image(t map[string]any) (*memdev.Dev, int64) {
	lss := int64(512)
	if str(t, "lss") == "4096" {
		lss = 4096
	}
	switch str(t, "kind") {
	case "gpt1", "gpt2":
		d, size := c15Base(lss)
		sectors := uint64(size / lss)
		var offs []int64
		switch str(t, "copy") {
		case "primary":
			offs = []int64{lss}
		case "backup":
			d.WriteAt(make([]byte, 8), lss) // invalidate the primary so the reader turns to the backup
			offs = []int64{size - lss}
		default:
			offs = []int64{lss, size - lss}
		}
		for _, off := range offs {
			if str(t, "kind") == "gpt1" {
				c15Patch(d, off, lss, str(t, "field"), str(t, "val"), str(t, "fix") == "yes", sectors)
			} else {
				// f1 < f2 in the order arrlba, count, esize: patch the size fields first so that a
				// "wrap" array LBA is computed against the final count and entry size
				c15Patch(d, off, lss, str(t, "f2"), str(t, "v2"), true, sectors)
				c15Patch(d, off, lss, str(t, "f1"), str(t, "v1"), true, sectors)
			}
		}
		return d, lss
	case "rescale":
		d, size := c15Base(512)
		es, _ := strconv.Atoi(str(t, "esize"))
		offs := []int64{512}
		if str(t, "copy") == "both" {
			offs = append(offs, size-512)
		}
		for _, off := range offs {
			h := d.Bytes(off, 512)
			binary.LittleEndian.PutUint32(h[80:84], uint32(128*128/es))
			binary.LittleEndian.PutUint32(h[84:88], uint32(es))
			binary.LittleEndian.PutUint32(h[16:20], 0)
			binary.LittleEndian.PutUint32(h[16:20], crc32.ChecksumIEEE(h[0:92]))
			d.WriteAt(h, off)
		}
		return d, 512
	case "trunc":
		d, size := c15Base(lss)
		arr := 128 * 128 / lss
		n := map[string]int64{"zero": 0, "s1": lss, "s2": 2 * lss, "midarr": 2*lss + 5000, "nobackup": size - (arr+1)*lss, "oddbyte": size - 1}[str(t, "len")]
		d.SetSize(n)
		return d, lss
	case "mbr":
		size := int64(10 << 20)
		d := memdev.New(size)
		switch str(t, "base") {
		case "one":
			tb := &mbr.Table{LogicalSectorSize: 512, PhysicalSectorSize: 512, Partitions: []*mbr.Partition{{Index: 1, Bootable: true, Type: mbr.Linux, Start: 2048, Size: 2048}}}
			tb.Write(d, size)
		case "pmbr":
			d, size = c15Base(512)
		default:
			tb := &mbr.Table{LogicalSectorSize: 512, PhysicalSectorSize: 512, Partitions: []*mbr.Partition{
				{Index: 1, Bootable: true, Type: mbr.Linux, Start: 2048, Size: 2048}, {Index: 2, Type: mbr.Fat32LBA, Start: 4096, Size: 1000},
				{Index: 3, Type: mbr.Linux, Start: 6000, Size: 100}, {Index: 4, Type: mbr.Linux, Start: 7000, Size: 13000}}}
			tb.Write(d, size)
		}
		b := d.Bytes(0, 512)
		slot, _ := strconv.Atoi(str(t, "slot"))
		e := b[446+16*(slot-1):]
		v := c15Val(str(t, "val"), 4, uint64(size/512))
		switch str(t, "field") {
		case "sig":
			b[510], b[511] = byte(v), byte(v>>8)
		case "boot":
			e[0] = byte(v) | byte(v>>24)
		case "type":
			e[4] = byte(v)
		case "start":
			binary.LittleEndian.PutUint32(e[8:], uint32(v))
		case "size":
			binary.LittleEndian.PutUint32(e[12:], uint32(v))
		}
		d.WriteAt(b, 0)
		return d, 512
	case "rand":
		n := int64(t["n"].(float64))
		r := rand.New(rand.NewSource(n*7919 + int64(t["seed"].(float64))))
		d, size := c15Base(512)
		switch n % 4 {
		case 0: // random bytes sprinkled over the primary header, CRC fixed half of the time
			h := d.Bytes(512, 512)
			for k := 0; k < 1+r.Intn(6); k++ {
				h[r.Intn(92)] = byte(r.Intn(256))
			}
			copy(h[0:8], "EFI PART")
			if r.Intn(2) == 0 {
				binary.LittleEndian.PutUint32(h[16:20], 0)
				binary.LittleEndian.PutUint32(h[16:20], crc32.ChecksumIEEE(h[0:92]))
			}
			d.WriteAt(h, 512)
		case 1: // the same on the backup with the primary destroyed
			d.WriteAt(make([]byte, 512), 512)
			h := d.Bytes(size-512, 512)
			for k := 0; k < 1+r.Intn(6); k++ {
				h[r.Intn(92)] = byte(r.Intn(256))
			}
			binary.LittleEndian.PutUint32(h[16:20], 0)
			binary.LittleEndian.PutUint32(h[16:20], crc32.ChecksumIEEE(h[0:92]))
			d.WriteAt(h, size-512)
		case 2: // random bytes in the entry array, array CRC fixed in the header
			a := d.Bytes(1024, 16384)
			for k := 0; k < 1+r.Intn(40); k++ {
				a[r.Intn(len(a))] = byte(r.Intn(256))
			}
			d.WriteAt(a, 1024)
			h := d.Bytes(512, 512)
			binary.LittleEndian.PutUint32(h[88:92], crc32.ChecksumIEEE(a))
			binary.LittleEndian.PutUint32(h[16:20], 0)
			binary.LittleEndian.PutUint32(h[16:20], crc32.ChecksumIEEE(h[0:92]))
			d.WriteAt(h, 512)
		default: // fully random first sectors and last sector
			b := make([]byte, 4096)
			r.Read(b)
			if r.Intn(2) == 0 {
				b[510], b[511] = 0x55, 0xaa
			}
			d.WriteAt(b, 0)
			r.Read(b[:512])
			d.WriteAt(b[:512], size-512)
		}
		return d, 512
	}
	return memdev.New(1 << 20), 512
}

func c15Child(t map[string]any) map[string]any {
	d, lss := c15Image(t)
	res := map[string]any{"out": "error", "crcvalid": false, "parts": false, "dev_mb": int(d.Size() >> 20), "via": ""}
	var tb partition.Table
	var err error
	if p := fsx.Catch(func() { tb, err = partition.Read(file.New(d, true), int(lss), int(lss)) }); p != "" {
		res["out"] = "panic"
		res["detail"] = p
		return res
	}
	if err != nil {
		res["detail"] = err.Error()
		return res
	}
	res["out"] = "table"
	switch tt := tb.(type) {
	case *gpt.Table:
		g := rawpt.ParseGPT(d, d.Size(), int(lss))
		h := g.Primary
		res["via"] = "gpt-primary"
		if tt.RecoveredFromBackup {
			h = g.Backup
			res["via"] = "gpt-backup"
		}
		res["crcvalid"] = h.Present && h.SigOK && h.HdrCRCOK && h.ArrRead && h.ArrCRCOK
		v := viewGPT(tt)
		same := len(v.Parts) == len(h.Entries) && v.GUID == h.GUID
		if same {
			for i, e := range h.Entries {
				p := v.Parts[i]
				if p.Index != e.Index || p.Start != e.Start || p.End != e.End || p.Type != e.Type || p.GUID != e.GUID || p.Attr != e.Attr || p.Name != e.Name {
					same = false
				}
			}
		}
		res["parts"] = same
	case *mbr.Table:
		m := rawpt.ParseMBR(d)
		res["via"] = "mbr"
		res["crcvalid"] = m.Present && m.SigOK
		same := len(tt.Partitions) == 4
		if same {
			for i, p := range tt.Partitions {
				s := m.Slots[i]
				if p.Start != s.Start || p.Size != s.Size || byte(p.Type) != s.Type || p.Bootable != (s.Boot == 0x80) {
					same = false
				}
			}
		}
		res["parts"] = same
	}
	return res
}

func init() { childRoles["c15"] = c15Child }

func C15(c *core.Ctx) {
	c.Level = "fault_enumeration"
	c.Rule = "case = one corruption tuple of GptParse.tla: (copy, header field, boundary value, header CRC recomputed or not) for every field of the GPT header; all 2-field combinations of {array LBA, entry count, entry size} with the CRC fixed; truncated devices; MBR field corruptions; seeded random images; enumerated by TLC, each executed in a child process (deadline, address-space limit, TotalAlloc accounting); non-trivial = a corruption that changes the bytes of a valid image (all tuples; distinct key = tuple)"
	c.Assumptions = []string{"child process with ulimit -v 6 GiB and a 15 s deadline per case; allocation measured as runtime TotalAlloc delta around partition.Read", "allocation bound 8 x device size + 64 MiB", "independent parser (rawpt) decides CRC validity of the copy a table was taken from"}
	nrand, pairs := 200, "TRUE"
	if c.Tier == "thorough" {
		nrand, pairs = 5000, "TRUE"
	}
	seed := c.Seed
	ts := tupleSpace{
		GenModule: "GptParse_Gen", GenCfg: fmt.Sprintf("SPECIFICATION Spec\nCONSTANTS NRand = %d\n WithPairs = %s\nINVARIANT Emit\nCHECK_DEADLOCK FALSE\n", nrand, pairs),
		TraceModule: "GptParse_Trace", TraceCfg: "GptParse_Trace.cfg",
		ExecAll: func(tuples []map[string]any) []map[string]any {
			for _, t := range tuples {
				t["seed"] = seed
			}
			res := runChildren("c15", tuples, 15*time.Second, 6<<20, 12)
			for _, r := range res {
				for _, k := range []string{"crcvalid", "parts"} {
					if _, ok := r[k]; !ok {
						r[k] = false
					}
				}
				for _, k := range []string{"alloc_mb", "dev_mb"} {
					if _, ok := r[k]; !ok {
						r[k] = 0
					}
				}
			}
			return res
		},
		Sig: func(t, ev map[string]any, detail string) ([]string, string) {
			out := str(ev, "out")
			sig := "c15-" + out
			switch {
			case out == "table" && ev["crcvalid"] != true:
				sig = "table-from-crc-invalid-copy"
			case out == "table" && ev["parts"] != true:
				sig = "table-differs-from-independent-decode"
			case out == "table" || out == "error":
				sig = "allocation-out-of-proportion"
			}
			if f, ok := t["field"]; ok {
				sig += "-" + fmt.Sprint(f)
			} else if t["f1"] != nil {
				sig += "-" + fmt.Sprint(t["f1"]) + "+" + fmt.Sprint(t["f2"])
			}
			return []string{sig}, fmt.Sprintf("partition.Read on corrupted image %s -> out=%s alloc=%vMiB (device %vMiB) via=%v crcvalid=%v parts=%v detail=%v", js(t), out, ev["alloc_mb"], ev["dev_mb"], ev["via"], ev["crcvalid"], ev["parts"], ev["detail"])
		},
	}
	_, events := ts.run(c)
	n := map[string]int{}
	for _, e := range events {
		n[str(e, "out")]++
		if str(e, "out") == "infra" {
			c.Broken("child infrastructure failure: %v", e["detail"])
		}
	}
	c.Extra["outcomes"] = n
	if n["table"] == 0 {
		c.Broken("no corrupted image still yielded a table (vacuous: fallback path never exercised)")
	}
}
