package props

import (
	"bytes"
	"encoding/json"
	"fmt"
	"io"
	"os"
	"os/exec"
	"regexp"
	"path/filepath"
	"sort"
	"strconv"
	"strings"
	"time"

	"github.com/diskfs/go-diskfs/filesystem"
	"github.com/diskfs/go-diskfs/filesystem/ext4"

	"verif/harness/internal/fsx"
	"verif/harness/internal/memdev"
)

// ext4 driver shared by C04 (tree semantics), C05 (e2fsck-clean after every call), C19
// (attributes) and C03/C11.  Executes the calls of ExtTree.tla on a real ext4 volume on a
// memdev and records the projections after every call.

var extPaths = []string{"a", "b", "d/a", "d", "l", "d/l"}

var extNames = map[string]string{"a": "a.txt", "b": "B-file.bin", "d": "dir1", "d/a": "dir1/a.txt", "l": "link1", "d/l": "dir1/link-two"}

type extOp struct {
	A   string `json:"a"`
	P   string `json:"p,omitempty"`
	Off int    `json:"off,omitempty"`
	Len int    `json:"len,omitempty"`
	Tag int    `json:"tag,omitempty"`
	T   string `json:"t,omitempty"`
	V   string `json:"v,omitempty"`
	W   string `json:"w,omitempty"`
	K   int    `json:"k,omitempty"`
	// Held: this write goes through the handle that an earlier Hold call opened on the file and kept
	Held bool `json:"held,omitempty"`
}

type extCfg struct {
	Only string `json:"only,omitempty"` // run only behaviours with this label on the configuration
	Size     int64  `json:"size"`
	Start    int64  `json:"start"`
	SPB      int    `json:"spb"` // sectors per block (0 = default)
	Journal  bool   `json:"journal"`
	Checksum bool   `json:"checksum"`
	Extra    string `json:"extra,omitempty"` // further Create parameters (C05 tuples), see extParams
	Fsck     bool   `json:"fsck"`            // run e2fsck -f -n after every call (C05)
}

func extParams(cfg extCfg) *ext4.Params {
	p := &ext4.Params{SectorsPerBlock: uint8(cfg.SPB), Checksum: cfg.Checksum, VolumeName: "verif"}
	p.Features = append(p.Features, ext4.WithFeatureHasJournal(cfg.Journal))
	if cfg.Checksum { // Params.Checksum is not consulted by Create; the feature option is what turns metadata_csum on
		p.Features = append(p.Features, ext4.WithFeatureMetadataChecksums(true))
	}
	for _, f := range strings.Split(cfg.Extra, ",") {
		switch f {
		case "no64bit":
			p.Features = append(p.Features, ext4.WithFeatureFS64Bit(false))
		case "noflex":
			p.Features = append(p.Features, ext4.WithFeatureFlexBlockGroups(false))
		case "sparse2":
			p.Features = append(p.Features, ext4.WithFeatureSparseSuperBlockV2(true))
		case "noresize":
			p.Features = append(p.Features, ext4.WithFeatureReservedGDTBlocksForExpansion(false))
		case "bpg256":
			p.BlocksPerGroup = 256
		case "bpg256nr": // small groups without the resize inode
			p.BlocksPerGroup = 256
			p.Features = append(p.Features, ext4.WithFeatureReservedGDTBlocksForExpansion(false))
		case "bpg2048":
			p.BlocksPerGroup = 2048
		case "ratio4k":
			p.InodeRatio = 4096
		case "inodes64":
			p.InodeCount = 64
		case "dirindex":
			p.Features = append(p.Features, ext4.WithFeatureDirectoryIndices(true))
		case "nohuge":
			p.Features = append(p.Features, ext4.WithFeatureHugeFile(false))
		}
	}
	return p
}

type extRun struct {
	kept            map[string]filesystem.File // handles opened by Hold and not used yet
	straddleReached bool // the Straddle macro brought the lowest free block to the last block of a group
	manyExtentsDone int  // extents the ManyExtents macro reached
	fullReached     bool // the Full macro got a write refused
	edgeReached     bool // the GroupEdge macro brought the lowest free block to the first block of a group
	fsckMid         int  // worst e2fsck exit status seen INSIDE a macro call (0 = clean)
	cfg    extCfg
	vol    *fsx.Vol
	B      int64
	rev    map[string]string
	sizeU  map[string]int
	maxTag int
	work   string
}

func symTarget(cls string) string {
	n := map[string]int{"t1": 1, "t59": 59, "t60": 60, "t61": 61, "t255": 255, "t4095": 4095}[cls]
	if cls == "abs" {
		return "/absolute/target/of/a/link"
	}
	if n <= 3 {
		return strings.Repeat("x", n)
	}
	s := "../"
	for len(s) < n {
		s += "nonexistent-target-component/"
	}
	return s[:n-1] + "z"
}

func newExtRun(cfg extCfg) (*extRun, map[string]any, error) {
	r := &extRun{cfg: cfg, rev: map[string]string{}, sizeU: map[string]int{}}
	for k, v := range extNames {
		r.rev[v] = k
	}
	d := memdev.NewPattern(cfg.Start + cfg.Size + 1<<20)
	d.FailOutside = []memdev.Range{{Off: cfg.Start, Len: cfg.Size}}
	vol, err := fsx.CreateOn("ext4", d, fsx.Opt{Start: cfg.Start, Size: cfg.Size, Ext4: extParams(cfg)})
	if err != nil {
		return nil, nil, err
	}
	r.vol = vol
	// the block size the library really chose
	r.B = extBlockSize(d, cfg.Start)
	ev := r.event(extOp{A: "Reset"}, "ok", "", nil)
	ev["cfg"] = cfg
	ev["blocksize"] = r.B
	return r, ev, nil
}

func extBlockSize(d *memdev.Dev, start int64) int64 {
	sb := d.Bytes(start+1024, 64)
	lg := uint32(sb[24]) | uint32(sb[25])<<8 | uint32(sb[26])<<16 | uint32(sb[27])<<24
	if lg > 6 {
		return 1024
	}
	return 1024 << lg
}

func (r *extRun) unit(u int) int64 { return unit(u, r.B) }

func (r *extRun) tagsOf(data []byte) []int {
	fr := &fatRun{B: r.B, maxTag: r.maxTag}
	return fr.tagsOf(data)
}

func (r *extRun) content(tag int, lo, hi int64) []byte {
	b := make([]byte, hi-lo)
	for i := range b {
		b[i] = fsx.ContentByte(tag, lo+int64(i))
	}
	return b
}

func modeString(m os.FileMode) string {
	bits := uint32(m.Perm())
	if m&os.ModeSetuid != 0 {
		bits |= 0o4000
	}
	if m&os.ModeSetgid != 0 {
		bits |= 0o2000
	}
	if m&os.ModeSticky != 0 {
		bits |= 0o1000
	}
	return fmt.Sprintf("%04o", bits)
}

func parseMode(s string) os.FileMode {
	v, _ := strconv.ParseUint(s, 8, 32)
	m := os.FileMode(v & 0o777)
	if v&0o4000 != 0 {
		m |= os.ModeSetuid
	}
	if v&0o2000 != 0 {
		m |= os.ModeSetgid
	}
	if v&0o1000 != 0 {
		m |= os.ModeSticky
	}
	return m
}

func (r *extRun) project(fs filesystem.FileSystem) (tree, attrs map[string]any, extra []string) {
	tree, attrs = map[string]any{}, map[string]any{}
	noAttr := map[string]any{"mode": "", "uid": "", "gid": "", "mt": "", "at": ""}
	for _, p := range extPaths {
		tree[p] = map[string]any{"kind": "none"}
		attrs[p] = noAttr
	}
	walked, err := fsx.Walk(fs, 64<<20)
	if err != nil {
		for _, p := range extPaths {
			tree[p] = map[string]any{"kind": "error"}
		}
		return tree, attrs, []string{"walk: " + err.Error()}
	}
	extra = []string{}
	for name, n := range walked {
		p, ok := r.rev[name]
		if !ok {
			extra = append(extra, name)
			continue
		}
		switch n.Kind {
		case "dir":
			tree[p] = map[string]any{"kind": "dir"}
		case "link":
			tree[p] = map[string]any{"kind": "link", "target": linkClass(n.Link)}
			if n.Err != "" {
				extra = append(extra, name+": "+n.Err)
			}
		case "file":
			if n.Err != "" {
				tree[p] = map[string]any{"kind": "file", "data": []int{-3}}
				extra = append(extra, "read "+name+": "+n.Err) // reading a file the library wrote must not fail
				continue
			}
			tags := r.tagsOf(n.Data)
			if int64(len(n.Data)) != n.Size {
				tags = []int{-4}
			}
			tree[p] = map[string]any{"kind": "file", "data": tags}
		default:
			tree[p] = map[string]any{"kind": n.Kind}
		}
		// attributes through Stat
		var a map[string]any
		if pn := fsx.Catch(func() {
			fi, err := fs.Stat(name)
			if err != nil {
				extra = append(extra, "stat "+name+": "+err.Error())
				return
			}
			a = map[string]any{"mode": modeString(fi.Mode()), "uid": "", "gid": "", "mt": strconv.FormatInt(fi.ModTime().Unix(), 10), "at": ""}
			if st, ok := fi.Sys().(*ext4.StatT); ok && st != nil {
				a["uid"] = strconv.FormatUint(uint64(st.UID), 10)
				a["gid"] = strconv.FormatUint(uint64(st.GID), 10)
				a["at"] = strconv.FormatInt(st.AccessTime.Unix(), 10)
			}
			// kinds are never reported as one another
			k := "file"
			if fi.IsDir() {
				k = "dir"
			} else if fi.Mode()&os.ModeSymlink != 0 {
				k = "link"
			}
			if k != n.Kind {
				extra = append(extra, fmt.Sprintf("%s: listing says %s, Stat says %s", name, n.Kind, k))
			}
		}); pn != "" {
			extra = append(extra, "stat "+name+" panics: "+pn)
		}
		if a != nil {
			attrs[p] = a
		}
	}
	sort.Strings(extra)
	return
}

// linkClass maps a link target back to its class name (or "?<len>").
func linkClass(t string) string {
	for _, c := range []string{"t1", "t59", "t60", "t61", "t255", "t4095", "abs"} {
		if symTarget(c) == t {
			return c
		}
	}
	return fmt.Sprintf("?len%d", len(t))
}

func (r *extRun) event(op extOp, res, panicked string, same []int) map[string]any {
	ev := map[string]any{"a": op.A, "p": op.P, "off": op.Off, "len": op.Len, "tag": op.Tag, "t": op.T, "v": op.V, "w": op.W, "k": op.K, "res": res, "panic": panicked, "held": op.Held}
	api, attrs, extra := r.project(r.vol.FS)
	ev["api"], ev["attrs"] = api, attrs
	re, err := r.vol.Reopen()
	if err != nil {
		api2 := map[string]any{}
		for _, p := range extPaths {
			api2[p] = map[string]any{"kind": "error"}
		}
		ev["api2"], ev["attrs2"] = api2, attrs
		extra = append(extra, "reopen: "+err.Error())
	} else {
		api2, attrs2, extra2 := r.project(re)
		ev["api2"], ev["attrs2"] = api2, attrs2
		extra = append(extra, extra2...)
	}
	ev["extra"] = extra
	if same == nil {
		same = []int{}
	}
	ev["same"] = same
	out := int64(0)
	for _, o := range r.vol.Dev.Outside {
		out += o.Len
	}
	ev["outside"] = out
	ev["fsckmid"] = r.fsckMid
	ev["straddle"] = r.straddleReached
	ev["edge"] = r.edgeReached
	ev["manyextents"] = r.manyExtentsDone
	ev["fullreached"] = r.fullReached
	r.fsckMid = 0
	if r.cfg.Fsck {
		code, text := r.fsck()
		ev["fsck"] = code
		ev["fscktext"] = text
	}
	return ev
}

// fsck dumps the volume's byte range to a scratch file and runs e2fsck -f -n on it.
func (r *extRun) fsck() (int, string) {
	if r.work == "" {
		r.work, _ = os.MkdirTemp("", "extfsck")
	}
	img := filepath.Join(r.work, "img")
	if err := os.WriteFile(img, r.vol.Dev.Bytes(r.cfg.Start, r.cfg.Size), 0o644); err != nil {
		return -1, err.Error()
	}
	cmd := exec.Command("/usr/sbin/e2fsck", "-f", "-n", img)
	var out bytes.Buffer
	cmd.Stdout, cmd.Stderr = &out, &out
	done := make(chan error, 1)
	go func() { done <- cmd.Run() }()
	select {
	case err := <-done:
		code := 0
		if ee, ok := err.(*exec.ExitError); ok {
			code = ee.ExitCode()
		} else if err != nil {
			return -1, err.Error()
		}
		t := out.String()
		if code != 0 && len(t) > 900 {
			t = t[:900]
		}
		if code == 0 {
			t = ""
		}
		return code, t
	case <-time.After(60 * time.Second):
		cmd.Process.Kill()
		return -2, "e2fsck timeout"
	}
}

func (r *extRun) close() {
	if r.work != "" {
		os.RemoveAll(r.work)
	}
}

func (r *extRun) do(op extOp) map[string]any {
	if op.Tag > r.maxTag {
		r.maxTag = op.Tag
	}
	fs := r.vol.FS
	res := "ok"
	var same []int
	var err error
	bigok := false
	real := extNames[op.P]
	panicked := fsx.Catch(func() {
		switch op.A {
		case "Mkdir":
			err = fs.Mkdir(real)
		case "Create":
			var f filesystem.File
			f, err = fs.OpenFile(real, os.O_CREATE|os.O_RDWR)
			if err == nil {
				err = f.Close()
			}
		case "Hold":
			var f filesystem.File
			f, err = fs.OpenFile(real, os.O_RDWR)
			if err == nil {
				if r.kept == nil {
					r.kept = map[string]filesystem.File{}
				}
				r.kept[op.P] = f
			}
		case "WriteAt", "Append":
			flag := os.O_RDWR
			off := op.Off
			if op.A == "Append" {
				flag |= os.O_APPEND
				off = r.sizeU[op.P]
			}
			var f filesystem.File
			if kf, ok := r.kept[op.P]; ok && op.Held {
				// the handle was opened some calls ago and has been kept open since
				f = kf
				delete(r.kept, op.P)
			} else {
				f, err = fs.OpenFile(real, flag)
				if err != nil {
					return
				}
			}
			defer f.Close()
			lo, hi := r.unit(off), r.unit(off+op.Len)
			if op.A == "WriteAt" || op.Held {
				if _, err = f.Seek(lo, io.SeekStart); err != nil {
					return
				}
			}
			var n int
			n, err = f.Write(r.content(op.Tag, lo, hi))
			if err != nil {
				return
			}
			if int64(n) != hi-lo {
				err = fmt.Errorf("short write %d of %d", n, hi-lo)
				return
			}
			if _, err = f.Seek(0, io.SeekStart); err != nil {
				return
			}
			data, rerr := fsx.ReadAll(f, 64<<20)
			if rerr != nil {
				same = []int{-3}
			} else {
				same = r.tagsOf(data)
			}
		case "Symlink":
			err = fs.Symlink(symTarget(op.T), real)
		case "Remove":
			err = fs.Remove(real)
		case "Chmod":
			err = fs.Chmod(real, parseMode(op.V))
		case "Chown":
			u, _ := strconv.ParseInt(op.V, 10, 64)
			g, _ := strconv.ParseInt(op.W, 10, 64)
			err = fs.Chown(real, int(u), int(g))
		case "Chtimes":
			m, _ := strconv.ParseInt(op.V, 10, 64)
			a, _ := strconv.ParseInt(op.W, 10, 64)
			err = fs.Chtimes(real, time.Unix(m, 0), time.Unix(a, 0), time.Unix(m, 0))
		case "Churn":
			dir := ""
			if op.P == "d" {
				dir = extNames["d"] + "/"
			}
			var made []string
			for i := 0; i < op.K; i++ {
				nm := fmt.Sprintf("%stemporary-entry-with-a-rather-long-name-%05d.tmp", dir, i)
				f, e := fs.OpenFile(nm, os.O_CREATE|os.O_RDWR)
				if e != nil {
					break
				}
				f.Close()
				made = append(made, nm)
			}
			for _, nm := range made {
				if e := fs.Remove(nm); e != nil {
					err = fmt.Errorf("cannot remove temporary %s: %v", nm, e)
				}
			}
		case "Churn2":
			// K files with 200-character names and one block of data each, created in turn (so
			// that the directory's blocks and the files' blocks interleave and the directory
			// collects many separate extents), then removed newest first
			dir := ""
			if op.P == "d" {
				dir = extNames["d"] + "/"
			}
			var made []string
			for i := 0; i < op.K; i++ {
				nm := fmt.Sprintf("%s%s-%05d.tmp", dir, strings.Repeat("n", 200), i)
				f, e := fs.OpenFile(nm, os.O_CREATE|os.O_RDWR)
				if e != nil {
					break
				}
				f.Write(r.content(7, 0, r.B))
				f.Close()
				made = append(made, nm)
			}
			for i := len(made) - 1; i >= 0; i-- {
				if _, e := fs.ReadDir(strings.TrimSuffix(dirOrDot(dir), "/")); e != nil {
					err = fmt.Errorf("directory unreadable while %d temporary files remain: %v", i+1, e)
					break
				}
				if e := fs.Remove(made[i]); e != nil {
					err = fmt.Errorf("cannot remove temporary %s: %v", made[i][len(made[i])-12:], e)
				}
			}
		case "Truncate":
			if tr, ok := fs.(interface{ Truncate(string, int64) error }); ok {
				err = tr.Truncate(real, r.unit(op.Off))
			} else {
				err = fmt.Errorf("no Truncate")
			}
		case "ManyExtents":
			err = r.manyExtents(op.K)
		case "Full":
			err = r.full()
		case "Straddle":
			err = r.straddle()
		case "GroupEdge":
			err = r.groupEdge()
		case "BigFile":
			bigok, err = r.bigFile(op.K)
		case "Debugfs":
			bigok, err = r.debugfsCompare()
		default:
			err = fmt.Errorf("unknown op %s", op.A)
		}
	})
	if err != nil {
		res = "err"
	}
	if panicked != "" {
		res = "panic"
	}
	ev := r.event(op, res, panicked, same)
	ev["bigok"] = bigok
	ev["dbg"] = bigok
	if err != nil {
		ev["errtext"] = err.Error()
	}
	if api, ok := ev["api"].(map[string]any); ok {
		for p, n := range api {
			if m, ok := n.(map[string]any); ok && m["kind"] == "file" {
				if d, ok := m["data"].([]int); ok && (len(d) == 0 || d[0] >= -1) {
					r.sizeU[p] = len(d)
				}
			}
		}
	}
	return ev
}

// freeLayout asks e2fsprogs (dumpe2fs) for the block groups of the volume: first and last block of
// every group and the free blocks of each.
type extGroup struct {
	first, last int64
	free        map[int64]bool
}

func (r *extRun) freeLayout() ([]extGroup, error) {
	if r.work == "" {
		r.work, _ = os.MkdirTemp("", "extfsck")
	}
	img := filepath.Join(r.work, "img")
	if err := os.WriteFile(img, r.vol.Dev.Bytes(r.cfg.Start, r.cfg.Size), 0o644); err != nil {
		return nil, err
	}
	out, err := exec.Command("/usr/sbin/dumpe2fs", img).Output()
	if err != nil && len(out) == 0 {
		return nil, fmt.Errorf("dumpe2fs: %v", err)
	}
	var gs []extGroup
	reG := regexp.MustCompile(`^Group \d+: \(Blocks (\d+)-(\d+)\)`)
	for _, ln := range strings.Split(string(out), "\n") {
		if m := reG.FindStringSubmatch(ln); m != nil {
			a, _ := strconv.ParseInt(m[1], 10, 64)
			b, _ := strconv.ParseInt(m[2], 10, 64)
			gs = append(gs, extGroup{first: a, last: b, free: map[int64]bool{}})
			continue
		}
		t := strings.TrimSpace(ln)
		if strings.HasPrefix(t, "Free blocks:") && len(gs) > 0 {
			for _, part := range strings.Split(strings.TrimPrefix(t, "Free blocks:"), ",") {
				part = strings.TrimSpace(part)
				if part == "" {
					continue
				}
				lo, hi := part, part
				if i := strings.Index(part, "-"); i > 0 {
					lo, hi = part[:i], part[i+1:]
				}
				a, e1 := strconv.ParseInt(lo, 10, 64)
				b, e2 := strconv.ParseInt(hi, 10, 64)
				if e1 != nil || e2 != nil {
					continue
				}
				for x := a; x <= b; x++ {
					gs[len(gs)-1].free[x] = true
				}
			}
		}
	}
	if len(gs) == 0 {
		return nil, fmt.Errorf("dumpe2fs: no groups in output")
	}
	return gs, nil
}

// straddle makes a directory grow across a block-group boundary: with the help of the reference
// tool's view of the free blocks it uses up every free block below the last block of some group g
// whose successor starts with a free block, then adds long-named entries to a fresh directory until
// it has grown by two blocks (the last block of g and the first of g+1: adjacent on disk, in different
// groups), then removes the entries, the directory and the padding again.  Net effect on the tree: none.
// When checking with e2fsck is on, the image is checked after the growth and after the removals.
func (r *extRun) straddle() error {
	fs := r.vol.FS
	gs, err := r.freeLayout()
	if err != nil {
		return nil // no reference tool: nothing to do (the macro is a no-op)
	}
	if len(gs) < 2 {
		return nil // a single group has no boundary
	}
	// pick the first boundary whose both sides are free
	target := int64(-1)
	for g := 0; g+1 < len(gs); g++ {
		if gs[g].free[gs[g].last] && gs[g+1].free[gs[g+1].first] {
			target = gs[g].last
			break
		}
	}
	if target < 0 {
		return nil
	}
	dir := "straddle-dir"
	if err := fs.Mkdir(dir); err != nil {
		return nil // no room: nothing demanded
	}
	var pads, ents []string
	cleanup := func() error {
		var first error
		for i := len(ents) - 1; i >= 0; i-- {
			if e := fs.Remove(ents[i]); e != nil && first == nil {
				first = fmt.Errorf("cannot remove entry of the straddling directory: %v", e)
			}
		}
		if e := fs.Remove(dir); e != nil && first == nil {
			first = fmt.Errorf("cannot remove the straddling directory: %v", e)
		}
		for _, p := range pads {
			if e := fs.Remove(p); e != nil && first == nil {
				first = fmt.Errorf("cannot remove padding file: %v", e)
			}
		}
		return first
	}
	lowestFree := func(gs []extGroup) int64 {
		for _, g := range gs {
			for b := g.first; b <= g.last; b++ {
				if g.free[b] {
					return b
				}
			}
		}
		return -1
	}
	// use up the free blocks below the target (a few rounds: extent-tree blocks and the allocator's
	// choices make the first estimate inexact)
	for round := 0; round < 6; round++ {
		gs, err = r.freeLayout()
		if err != nil {
			break
		}
		n := int64(0)
		for _, g := range gs {
			for b := range g.free {
				if b < target {
					n++
				}
			}
		}
		lf := lowestFree(gs)
		if n == 0 || lf >= target {
			break
		}
		// at most the contiguous run that starts at the lowest free block, so that the pad file stays in one extent
		run := int64(0)
		for b := lf; b < target; b++ {
			free := false
			for _, g := range gs {
				if g.free[b] {
					free = true
				}
			}
			if !free {
				break
			}
			run++
		}
		if run == 0 {
			break
		}
		nm := fmt.Sprintf("straddle-pad-%d.bin", round)
		f, e := fs.OpenFile(nm, os.O_CREATE|os.O_RDWR)
		if e != nil {
			break
		}
		pads = append(pads, nm)
		_, e = f.Write(r.content(5, 0, run*r.B))
		f.Close()
		if e != nil {
			break
		}
	}
	gs, err = r.freeLayout()
	reached := err == nil && lowestFree(gs) == target
	// grow the directory by at least two blocks
	per := int(r.B / 264)
	for i := 0; i < 2*per+3; i++ {
		nm := fmt.Sprintf("%s/%s-%04d", dir, strings.Repeat("s", 240), i)
		f, e := fs.OpenFile(nm, os.O_CREATE|os.O_RDWR)
		if e != nil {
			break
		}
		f.Close()
		ents = append(ents, nm)
	}
	r.straddleReached = r.straddleReached || reached
	if r.cfg.Fsck {
		if code, text := r.fsck(); code != 0 {
			cleanup()
			r.fsckMid = code
			return fmt.Errorf("e2fsck exit %d with a directory grown across a block group boundary (boundary reached: %v): %s", code, reached, text)
		}
	}
	if _, e := fs.ReadDir(dir); e != nil {
		cleanup()
		return fmt.Errorf("directory grown across a block group boundary is unreadable: %v", e)
	}
	if e := cleanup(); e != nil {
		return e
	}
	if r.cfg.Fsck {
		if code, text := r.fsck(); code != 0 {
			r.fsckMid = code
			return fmt.Errorf("e2fsck exit %d after removing a directory that had grown across a block group boundary (boundary reached: %v): %s", code, reached, text)
		}
	}
	return nil
}

// manyExtents grows one file to k extents that cannot be merged (one block at a time, alternating with a
// second file), so that its extent tree gets index blocks and, past a few hundred extents, a second
// level; the file is read back in full along the way, the image is checked by e2fsck (when that is on)
// at eight points and at the end both files are removed.  Net effect on the tree: none.
func (r *extRun) manyExtents(k int) error {
	fs := r.vol.FS
	names := []string{"many-extents-x.bin", "many-extents-y.bin"}
	// a small file written first and removed before the truncation below: the blocks it leaves free lie
	// below everything else, so a tree that is rebuilt afterwards does not land on the blocks it had
	pad := "many-extents-pad.bin"
	if f, e := fs.OpenFile(pad, os.O_CREATE|os.O_RDWR); e == nil {
		f.Write(r.content(29, 0, 3*r.B))
		f.Close()
	}
	for _, n := range names {
		f, e := fs.OpenFile(n, os.O_CREATE|os.O_RDWR)
		if e != nil {
			for _, m := range names {
				fs.Remove(m)
			}
			return nil // no room
		}
		f.Close()
	}
	cleanup := func() error {
		var first error
		fs.Remove(pad) // gone already unless the macro stopped early
		for _, n := range names {
			if e := fs.Remove(n); e != nil && first == nil {
				first = fmt.Errorf("cannot remove %s: %v", n, e)
			}
		}
		return first
	}
	check := func(i int) error {
		g, e := fs.OpenFile(names[0], os.O_RDONLY)
		if e != nil {
			return fmt.Errorf("file of %d extents cannot be opened: %v", i, e)
		}
		got, e := fsx.ReadAll(g, int64(i+1)*r.B+10)
		g.Close()
		if e != nil || int64(len(got)) != int64(i)*r.B {
			return fmt.Errorf("file of %d extents reads back %d bytes (err %v)", i, len(got), e)
		}
		for j := 0; j < i; j++ {
			if !bytes.Equal(got[int64(j)*r.B:int64(j+1)*r.B], r.content(30+j%50, 0, r.B)) {
				return fmt.Errorf("file of %d extents: block %d reads back differently", i, j)
			}
		}
		if r.cfg.Fsck {
			if code, text := r.fsck(); code != 0 {
				r.fsckMid = code
				return fmt.Errorf("e2fsck exit %d with a file of %d extents: %s", code, i, text)
			}
		}
		return nil
	}
	step := k / 8
	if step == 0 {
		step = 1
	}
	done := 0
	for i := 0; i < k; i++ {
		full := false
		for _, n := range names {
			f, e := fs.OpenFile(n, os.O_RDWR|os.O_APPEND)
			if e != nil {
				full = true
				break
			}
			_, e = f.Write(r.content(30+i%50, 0, r.B))
			f.Close()
			if e != nil {
				full = true
				break
			}
		}
		if full {
			break
		}
		done = i + 1
		if done%step == 0 {
			if e := check(done); e != nil {
				cleanup()
				return e
			}
		}
	}
	r.manyExtentsDone = done
	if done > 0 && done%step != 0 {
		if e := check(done); e != nil {
			cleanup()
			return e
		}
	}
	fs.Remove(pad)
	// shrink the file with the deep tree (ext4.FileSystem.Truncate rebuilds the tree from the extents that
	// stay): the rest must read back and the image must be clean
	if tr, ok := fs.(interface{ Truncate(string, int64) error }); ok && done >= 8 {
		// first by a few blocks only (a tree that was two levels deep stays two levels deep), then to 3/4
		for _, keep := range []int{done - 3, done * 3 / 4} {
			if e := tr.Truncate(names[0], int64(keep)*r.B); e == nil {
				if e := check(keep); e != nil {
					cleanup()
					return fmt.Errorf("after Truncate to %d of %d extents: %v", keep, done, e)
				}
			}
		}
	}
	if e := cleanup(); e != nil {
		return e
	}
	if r.cfg.Fsck {
		if code, text := r.fsck(); code != 0 {
			r.fsckMid = code
			return fmt.Errorf("e2fsck exit %d after removing a file of %d extents: %s", code, done, text)
		}
	}
	return nil
}

// full fills the volume until a write is refused, then makes the calls that need a fresh block or inode
// (Mkdir, Create + write, Symlink with a long target, Append) - each may be refused, none may leave the
// image unclean - removes what it made and the filler.  Net effect on the tree: none.
func (r *extRun) full() error {
	fs := r.vol.FS
	var made []string
	chk := func(when string) error {
		if r.cfg.Fsck {
			if code, text := r.fsck(); code != 0 {
				r.fsckMid = code
				return fmt.Errorf("e2fsck exit %d %s: %s", code, when, text)
			}
		}
		return nil
	}
	cleanup := func() error {
		var first error
		for i := len(made) - 1; i >= 0; i-- {
			if e := fs.Remove(made[i]); e != nil && first == nil {
				first = fmt.Errorf("cannot remove %s: %v", made[i], e)
			}
		}
		return first
	}
	chunk := r.content(41, 0, 64*r.B)
	refused := false
	for fi := 0; fi < 64 && !refused; fi++ {
		n := fmt.Sprintf("filler-%02d.bin", fi)
		f, e := fs.OpenFile(n, os.O_CREATE|os.O_RDWR)
		if e != nil {
			refused = true
			break
		}
		made = append(made, n)
		for j := 0; j < 512; j++ {
			if _, e := f.Write(chunk); e != nil {
				refused = true
				break
			}
		}
		f.Close()
	}
	// single blocks until nothing goes in any more
	for i := 0; i < 200; i++ {
		n := fmt.Sprintf("filler-small-%03d.bin", i)
		f, e := fs.OpenFile(n, os.O_CREATE|os.O_RDWR)
		if e != nil {
			break
		}
		made = append(made, n)
		_, e = f.Write(r.content(42, 0, r.B))
		f.Close()
		if e != nil {
			break
		}
	}
	r.fullReached = r.fullReached || refused
	if e := chk("with the volume filled until a write was refused"); e != nil {
		cleanup()
		return e
	}
	type try struct {
		name string
		do   func() error
		undo string
	}
	tries := []try{
		{"Mkdir on the full volume", func() error { return fs.Mkdir("dir-on-full-volume") }, "dir-on-full-volume"},
		{"Create + write on the full volume", func() error {
			f, e := fs.OpenFile("file-on-full-volume", os.O_CREATE|os.O_RDWR)
			if e != nil {
				return e
			}
			_, e = f.Write(r.content(43, 0, 3*r.B))
			f.Close()
			return e
		}, "file-on-full-volume"},
		{"Symlink with a long target on the full volume", func() error { return fs.Symlink(symTarget("t255"), "link-on-full-volume") }, "link-on-full-volume"},
		{"Append on the full volume", func() error {
			if len(made) == 0 {
				return nil
			}
			f, e := fs.OpenFile(made[0], os.O_RDWR|os.O_APPEND)
			if e != nil {
				return e
			}
			_, e = f.Write(r.content(44, 0, 2*r.B))
			f.Close()
			return e
		}, ""},
	}
	for _, t := range tries {
		e := t.do()
		if t.undo != "" {
			if _, serr := fs.Stat(t.undo); serr == nil {
				made = append(made, t.undo)
			}
		}
		res := "accepted"
		if e != nil {
			res = "refused (" + e.Error() + ")"
		}
		if ce := chk("after " + t.name + ", " + res); ce != nil {
			cleanup()
			return ce
		}
	}
	if e := cleanup(); e != nil {
		return e
	}
	return chk("after emptying the volume again")
}

// groupEdge puts two files at block-group boundaries - X1 fills a whole group g from its first block, X2
// starts at the first block of group g+1 - then removes X2, writes a small X3 (which takes the lowest
// free block) and reads X1 back: releasing a file whose extent begins at a group boundary must not
// disturb the file that owns the boundary block of the neighbouring group.  The free-block map comes
// from the reference tool (dumpe2fs).  Net effect on the tree: none.
func (r *extRun) groupEdge() error {
	fs := r.vol.FS
	gs, err := r.freeLayout()
	if err != nil || len(gs) < 3 {
		return nil
	}
	allFree := func(g extGroup) bool {
		for b := g.first; b <= g.last; b++ {
			if !g.free[b] {
				return false
			}
		}
		return true
	}
	gi := -1
	for g := 1; g+1 < len(gs); g++ {
		if allFree(gs[g]) && gs[g+1].free[gs[g+1].first] && gs[g+1].free[gs[g+1].first+1] {
			gi = g
			break
		}
	}
	if gi < 0 {
		return nil
	}
	target := gs[gi].first
	var made []string
	cleanup := func() error {
		var first error
		for i := len(made) - 1; i >= 0; i-- {
			if e := fs.Remove(made[i]); e != nil && first == nil {
				first = fmt.Errorf("cannot remove %s: %v", made[i], e)
			}
		}
		return first
	}
	writeFile := func(name string, tag int, blocks int64) error {
		f, e := fs.OpenFile(name, os.O_CREATE|os.O_RDWR)
		if e != nil {
			return e
		}
		made = append(made, name)
		_, e = f.Write(r.content(tag, 0, blocks*r.B))
		f.Close()
		return e
	}
	// use up the free blocks below the first block of group gi, one contiguous run per round
	for round := 0; round < 8; round++ {
		cur, e := r.freeLayout()
		if e != nil {
			break
		}
		lf := int64(-1)
		for _, g := range cur {
			for b := g.first; b <= g.last && lf < 0; b++ {
				if g.free[b] {
					lf = b
				}
			}
			if lf >= 0 {
				break
			}
		}
		if lf < 0 || lf >= target {
			break
		}
		run := int64(0)
		for b := lf; b < target; b++ {
			free := false
			for _, g := range cur {
				if g.free[b] {
					free = true
				}
			}
			if !free {
				break
			}
			run++
		}
		if run == 0 || writeFile(fmt.Sprintf("edge-pad-%d.bin", round), 5, run) != nil {
			break
		}
	}
	cur, e := r.freeLayout()
	if e != nil {
		cleanup()
		return nil
	}
	reached := false
	for _, g := range cur {
		for b := g.first; b <= g.last; b++ {
			if g.free[b] {
				reached = b == target
				goto found
			}
		}
	}
found:
	if !reached {
		return cleanup()
	}
	r.edgeReached = true
	gsize := gs[gi].last - gs[gi].first + 1
	if e := writeFile("edge-x1.bin", 21, gsize); e != nil {
		cleanup()
		return nil // no room for the experiment
	}
	if e := writeFile("edge-x2.bin", 22, 2); e != nil {
		cleanup()
		return nil
	}
	if e := fs.Remove("edge-x2.bin"); e != nil {
		cleanup()
		return fmt.Errorf("cannot remove the file at the group boundary: %v", e)
	}
	made = made[:len(made)-1]
	check := func(when string) error {
		if r.cfg.Fsck {
			if code, text := r.fsck(); code != 0 {
				r.fsckMid = code
				return fmt.Errorf("e2fsck exit %d %s: %s", code, when, text)
			}
		}
		return nil
	}
	if e := check("after removing a file whose extent begins at a block group boundary"); e != nil {
		cleanup()
		return e
	}
	if e := writeFile("edge-x3.bin", 23, 1); e != nil {
		cleanup()
		return nil
	}
	g, e := fs.OpenFile("edge-x1.bin", os.O_RDONLY)
	if e != nil {
		cleanup()
		return fmt.Errorf("file that fills a block group cannot be opened: %v", e)
	}
	got, e := fsx.ReadAll(g, gsize*r.B+10)
	g.Close()
	if e != nil || !bytes.Equal(got, r.content(21, 0, gsize*r.B)) {
		cleanup()
		return fmt.Errorf("file that fills a block group reads back differently after its neighbour at the group boundary was removed and a new file written (err %v, %d bytes)", e, len(got))
	}
	if e := check("with files at block group boundaries"); e != nil {
		cleanup()
		return e
	}
	if e := cleanup(); e != nil {
		return e
	}
	return check("after removing the files at block group boundaries")
}

// bigFile writes a file of nblocks blocks outside the universe in irregular pieces (forward,
// then overwriting a middle range, then extending past a gap), reads it back through a fresh
// handle and after re-opening the image, then removes it.
func (r *extRun) bigFile(nblocks int) (bool, error) {
	fs := r.vol.FS
	name := "big-file.bin"
	total := int64(nblocks)*r.B + 123
	want := make([]byte, total)
	f, err := fs.OpenFile(name, os.O_CREATE|os.O_RDWR)
	if err != nil {
		return false, err
	}
	wr := func(tag int, lo, hi int64) error {
		if _, err := f.Seek(lo, io.SeekStart); err != nil {
			return err
		}
		b := r.content(tag, lo, hi)
		n, err := f.Write(b)
		if err != nil {
			return err
		}
		if int64(n) != hi-lo {
			return fmt.Errorf("short write")
		}
		copy(want[lo:hi], b)
		return nil
	}
	gap := total - 3*r.B - 7
	steps := [][3]int64{{1, 0, total / 3}, {2, total / 3, gap - 2*r.B}, {3, r.B/2 + 1, 5*r.B + 17}, {4, gap, total}}
	for _, s := range steps {
		if s[2] <= s[1] {
			continue
		}
		if err := wr(int(s[0]), s[1], s[2]); err != nil {
			f.Close()
			fs.Remove(name)
			return false, err
		}
	}
	f.Close()
	ok := true
	check := func(x filesystem.FileSystem) {
		g, err := x.OpenFile(name, os.O_RDONLY)
		if err != nil {
			ok = false
			return
		}
		got, err := fsx.ReadAll(g, total+10)
		g.Close()
		if err != nil || !bytes.Equal(got, want) {
			ok = false
		}
	}
	check(fs)
	if re, err := r.vol.Reopen(); err == nil {
		check(re)
	} else {
		ok = false
	}
	if r.cfg.Fsck {
		if code, text := r.fsck(); code != 0 {
			fs.Remove(name)
			return ok, fmt.Errorf("e2fsck exit %d with the big file present: %s", code, text)
		}
	}
	if err := fs.Remove(name); err != nil {
		return ok, err
	}
	return ok, nil
}

// debugfsCompare extracts every file of the universe with e2fsprogs' own reader and
// compares the bytes with what the library returns for the same file.
func (r *extRun) debugfsCompare() (bool, error) {
	if r.work == "" {
		r.work, _ = os.MkdirTemp("", "extfsck")
	}
	img := filepath.Join(r.work, "img")
	if err := os.WriteFile(img, r.vol.Dev.Bytes(r.cfg.Start, r.cfg.Size), 0o644); err != nil {
		return false, err
	}
	walked, err := fsx.Walk(r.vol.FS, 64<<20)
	if err != nil {
		return false, err
	}
	ok := true
	var firstErr error
	for name, n := range walked {
		switch n.Kind {
		case "file":
			out := filepath.Join(r.work, "dump")
			os.Remove(out)
			cmd := exec.Command("/usr/sbin/debugfs", "-R", fmt.Sprintf("dump \"/%s\" %s", name, out), img)
			if b, err := cmd.CombinedOutput(); err != nil {
				ok = false
				firstErr = fmt.Errorf("debugfs dump %s: %v %s", name, err, b)
				continue
			}
			got, err := os.ReadFile(out)
			if err != nil || !bytes.Equal(got, n.Data) {
				ok = false
				if firstErr == nil {
					firstErr = fmt.Errorf("debugfs extracts %d bytes for %s, the library reads %d (equal=%v)", len(got), name, len(n.Data), bytes.Equal(got, n.Data))
				}
			}
		case "link":
			cmd := exec.Command("/usr/sbin/debugfs", "-R", fmt.Sprintf("stat \"/%s\"", name), img)
			b, _ := cmd.CombinedOutput()
			if n.Link != "" && len(n.Link) < 60 && !bytes.Contains(b, []byte(n.Link)) {
				ok = false
				if firstErr == nil {
					firstErr = fmt.Errorf("debugfs stat of symlink %s does not show target %q", name, n.Link)
				}
			}
		}
	}
	return ok, firstErr
}

func dirOrDot(d string) string {
	if d == "" {
		return "."
	}
	return d
}

func extExec(cfg extCfg, ops []extOp) ([]map[string]any, error) {
	r, ev0, err := newExtRun(cfg)
	if err != nil {
		return nil, err
	}
	defer r.close()
	evs := []map[string]any{ev0}
	for _, op := range ops {
		evs = append(evs, r.do(op))
	}
	for _, f := range r.kept {
		f.Close()
	}
	return evs, nil
}

func parseExtBehs(lines []string) ([][]extOp, error) {
	seen := map[string]bool{}
	var out [][]extOp
	for _, l := range lines {
		if seen[l] {
			continue
		}
		seen[l] = true
		var ops []extOp
		if err := json.Unmarshal([]byte(l), &ops); err != nil {
			return nil, fmt.Errorf("bad behaviour %q: %v", l, err)
		}
		out = append(out, ops)
	}
	sort.Slice(out, func(i, j int) bool { return fmt.Sprint(out[i]) < fmt.Sprint(out[j]) })
	return out, nil
}
