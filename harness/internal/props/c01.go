package props

import (
	"fmt"
	"sort"
	"strings"
	"time"

	"verif/harness/internal/core"
	"verif/harness/internal/tlc"
)

// C01 / C08 / C03(FAT) — FAT volumes behave like a plain tree (FatTree.tla), stay
// structurally sound on disk (FatDisk.tla), and never write outside their range.

const fatUniverse = "  Files = {\"A\", \"b\", \"L1\", \"L2\", \"D/A\", \"D/b\", \"E/A\", \"E/b\"}\n  Dirs = {\"D\", \"E\"}\n  InD = {\"D/A\", \"D/b\"}\n  InE = {\"E/A\", \"E/b\"}\n"

// the exhaustive check of the model keeps the one-directory universe (state count); a second, smaller
// instance (FatTree_MC2.cfg) has two directories and checks the directory rename
const fatUniverseMC = "  Files = {\"A\", \"b\", \"L1\", \"L2\", \"D/A\", \"D/b\"}\n  Dirs = {\"D\"}\n  InD = {\"D/A\", \"D/b\"}\n  InE = {}\n"

func fatGenCfg(d int, neg, fill bool) []byte { return fatGenCfgF(d, neg, fill, false) }

func fatGenCfgF(d int, neg, fill, frag bool) []byte {
	b := func(x bool) string {
		if x {
			return "TRUE"
		}
		return "FALSE"
	}
	return []byte(fmt.Sprintf("SPECIFICATION Spec\nCONSTANTS\n  CU = 4\n%s  Total = 6\n  MaxLen = 9\n  D = %d\n  Neg = %s\n  WithFill = %s\n  Frag = %s\nINVARIANT Emit\nVIEW View\nCHECK_DEADLOCK FALSE\n", fatUniverse, d, b(neg), b(fill), b(frag)))
}

type fatPlan struct {
	behs  [][]fatOp
	label []string
}

// fatGenerate asks TLC for the behaviours of a tier.
func fatGenerate(c *core.Ctx) (*fatPlan, bool) {
	pl := &fatPlan{}
	add := func(label string, ops [][]fatOp) {
		for _, o := range ops {
			pl.behs = append(pl.behs, o)
			pl.label = append(pl.label, label)
		}
	}
	depth, walks, walkDepth := 2, 30, 25
	if c.Tier == "thorough" {
		depth, walks, walkDepth = 3, 300, 40
	}
	gen, err := tlc.Run(tlc.Opts{Module: "FatTree_Gen", Config: "gen.cfg", Workers: 1, Files: map[string][]byte{"gen.cfg": fatGenCfg(depth, true, false)}, Timeout: 20 * time.Minute})
	if err != nil || !gen.OK {
		c.Broken("FatTree_Gen BFS: %v", err)
		return nil, false
	}
	bfs, err := parseFatBehs(gen.Beh)
	if err != nil {
		c.Broken("%v", err)
		return nil, false
	}
	add(fmt.Sprintf("bfs-depth-%d", depth), bfs)
	c.Extra["generated_bfs_behaviours"] = len(bfs)
	sim, err := tlc.Run(tlc.Opts{Module: "FatTree_Gen", Config: "gen.cfg", Workers: 1, Simulate: fmt.Sprintf("num=%d", walks), Depth: walkDepth + 2, Seed: c.Seed,
		Files: map[string][]byte{"gen.cfg": fatGenCfg(walkDepth, true, true)}, Timeout: 10 * time.Minute})
	if err != nil {
		c.Broken("FatTree_Gen simulate: %v", err)
		return nil, false
	}
	w, err := parseFatBehs(sim.Beh)
	if err != nil {
		c.Broken("%v", err)
		return nil, false
	}
	add("walk", w)
	c.Extra["generated_walks"] = len(w)
	// the fragmentation family: every history of chain growth / release over two files, then fill
	fd := 3
	if c.Tier == "thorough" {
		fd = 4
	}
	fg, err := tlc.Run(tlc.Opts{Module: "FatTree_Gen", Config: "gen.cfg", Workers: 1, Files: map[string][]byte{"gen.cfg": fatGenCfgF(fd, false, true, true)}, Timeout: 20 * time.Minute})
	if err != nil || !fg.OK {
		c.Broken("FatTree_Gen fragmentation family: %v", err)
		return nil, false
	}
	fb, err := parseFatBehs(fg.Beh)
	if err != nil {
		c.Broken("%v", err)
		return nil, false
	}
	add("frag", fb)
	c.Extra["generated_fragmentation_histories"] = len(fb)
	return pl, true
}

func fatConfigs(tier string) []fatCfg {
	const MiB = 1 << 20
	cfgs := []fatCfg{
		{Kind: "fat12", Size: 8192, Start: 0, Names: "plain"},
		{Kind: "fat12", Size: 1474560, Start: MiB, Names: "tricky"},
		{Kind: "fat16", Size: 5 * MiB, Start: 512, Names: "plain"},
		{Kind: "fat32", Size: 51200, Start: MiB, Names: "plain"},
		{Kind: "fat32", Size: 34 * MiB, Start: 0, Names: "short"},
		// FAT32 with 65.5k clusters already taken: every further allocation gets a cluster number >= 65536
		{Kind: "fat32", Size: 34 * MiB, Start: 4096, Names: "plain", Preload: 65540 * 512},
		// the next free cluster sits just below an entry on a FAT sector boundary (FAT12: entry 341 straddles
		// bytes 511/512 of the FAT; FAT16: entry 256 opens the second FAT sector; FAT32: entry 128)
		{Kind: "fat12", Size: 1474560, Start: 0, Names: "plain", PreloadClusters: 337},
		{Kind: "fat12", Size: 1474560, Start: 512, Names: "short", PreloadClusters: 339},
		{Kind: "fat16", Size: 5 * MiB, Start: 0, Names: "plain", PreloadClusters: 252},
		{Kind: "fat32", Size: 34 * MiB, Start: 0, Names: "plain", PreloadClusters: 124},
	}
	if tier == "thorough" {
		cfgs = append(cfgs,
			fatCfg{Kind: "fat12", Size: 8192, Start: 5 << 30, Names: "tricky"},
			fatCfg{Kind: "fat12", Size: 4 * MiB, Start: 0, Names: "short"},
			fatCfg{Kind: "fat16", Size: 32 * MiB, Start: MiB, Names: "tricky"},
			fatCfg{Kind: "fat32", Size: 51200 + 512*7, Start: 5<<30 + 512, Names: "tricky"},
			fatCfg{Kind: "fat32", Size: 300 * MiB, Start: 0, Names: "plain"},
			fatCfg{Kind: "fat12", Size: 1474560, Start: MiB, Names: "tricky", PreloadClusters: 680},
			fatCfg{Kind: "fat12", Size: 1474560, Start: 0, Names: "plain", PreloadClusters: 338},
			fatCfg{Kind: "fat12", Size: 1474560, Start: 0, Names: "plain", PreloadClusters: 340},
			fatCfg{Kind: "fat16", Size: 5 * MiB, Start: MiB, Names: "tricky", PreloadClusters: 509},
			fatCfg{Kind: "fat32", Size: 34 * MiB, Start: MiB, Names: "tricky", PreloadClusters: 253},
		)
	}
	return cfgs
}

type fatJob struct {
	cfg   fatCfg
	ops   []fatOp
	label string
}

func fatJobs(c *core.Ctx, pl *fatPlan) []fatJob {
	var jobs []fatJob
	cfgs := fatConfigs(c.Tier)
	for ci, cfg := range cfgs {
		preloaded := 0
		small := cfg.Size <= 2*1024*1024
		for bi, ops := range pl.behs {
			// every behaviour runs on the small volumes; the large ones (whose every allocation
			// rewrites both FAT copies) get an interleaved share
			if !small && (bi+ci)%4 != 0 {
				continue
			}
			hasFill := false
			for _, o := range ops {
				if o.A == "Fill" {
					hasFill = true
				}
			}
			if hasFill && cfg.Size > 64*1024 {
				continue // Fill is only meaningful (and affordable) where the volume is tiny
			}
			if cfg.Preload > 1<<20 {
				// expensive configuration: a few of the long walks only
				maxPre := 8
				if c.Tier == "thorough" {
					maxPre = 40
				}
				if pl.label[bi] != "walk" || preloaded >= maxPre {
					continue
				}
				preloaded++
			}
			jobs = append(jobs, fatJob{cfg, ops, pl.label[bi]})
		}
		if cfg.Size <= 64*1024 {
			n := 2
			if c.Tier == "thorough" {
				n = 5
			}
			jobs = append(jobs, fatJob{cfg, fatFillCycles(n), "fill-cycles"})
			jobs = append(jobs, fatJob{cfg, fatFullScript(), "full-volume"})
		}
		if cfg.Preload <= 1<<20 {
			jobs = append(jobs, fatJob{cfg, fatHeldScript(), "held-handles"})
		}
	}
	// budget of the thorough tier: the depth-3 enumeration times the configurations is in the hundreds of
	// thousands of behaviours; everything else is kept and the depth-3 behaviours are sampled evenly
	// (a different residue class per seed)
	const budget = 70000
	if len(jobs) > budget {
		var rest, deep []fatJob
		for _, j := range jobs {
			if j.label == "bfs-depth-3" || j.label == "walk" {
				deep = append(deep, j)
			} else {
				rest = append(rest, j)
			}
		}
		room := budget - len(rest)
		if room < 1 {
			room = 1
		}
		stride := (len(deep) + room - 1) / room
		if stride < 1 {
			stride = 1
		}
		off := int(c.Seed % int64(stride))
		for i, j := range deep {
			if i%stride == off {
				rest = append(rest, j)
			}
		}
		c.Extra["bfs_depth3_and_walks_sampled_1_in"] = stride
		c.Extra["bfs_depth3_and_walk_jobs_generated"] = len(deep)
		jobs = rest
	}
	return jobs
}

// fatRunAll executes the jobs and validates the recorded trace with the given trace spec.
func fatRunAll(c *core.Ctx, jobs []fatJob, module, cfgFile string, sha, raw bool, sig func(job fatJob, step int, ev map[string]any, detail string) ([]string, string)) {
	// batches: the events of a batch (with their projections) are dropped once TLC has judged them,
	// so that the thorough tier does not keep millions of projections in memory
	const batch = 4000
	accepted := map[string]int{}
	executed, rejected := 0, 0
	for lo := 0; lo < len(jobs); lo += batch {
		hi := lo + batch
		if hi > len(jobs) {
			hi = len(jobs)
		}
		e, r, ok := fatRunBatch(c, jobs[lo:hi], lo, len(jobs), module, cfgFile, sha, raw, sig, accepted)
		executed += e
		rejected += r
		if !ok {
			return
		}
	}
	c.Extra["accepted_calls_per_action"] = accepted
	for _, a := range []string{"Mkdir", "Create", "WriteAt", "Append", "Trunc", "Rename", "RenameDir", "Remove", "Fill", "Hold", "HeldWrite"} {
		if accepted[a] == 0 {
			c.Broken("vacuous: no %s call was accepted by the real filesystem", a)
		}
	}
	c.TracesValidated = int64(executed - rejected)
	c.Extra["behaviours_executed"] = executed
	c.Extra["behaviours_rejected"] = rejected
}

func fatRunBatch(c *core.Ctx, jobs []fatJob, base, total int, module, cfgFile string, sha, raw bool, sig func(job fatJob, step int, ev map[string]any, detail string) ([]string, string), accepted map[string]int) (executed, rejected int, ok bool) {
	behs := make([][]map[string]any, len(jobs))
	errs := make([]error, len(jobs))
	parallel(len(jobs), func(i int) {
		behs[i], errs[i] = fatExec(jobs[i].cfg, jobs[i].ops, sha, raw)
	})
	var good [][]map[string]any
	var goodJobs []fatJob
	for i := range jobs {
		if errs[i] != nil {
			c.Broken("cannot create %v: %v", jobs[i].cfg, errs[i])
			continue
		}
		good = append(good, behs[i])
		goodJobs = append(goodJobs, jobs[i])
		for _, ev := range behs[i][1:] {
			c.AddEval(1)
			if ev["res"] == "ok" || ev["res"] == "full" {
				accepted[str(ev, "a")]++
				if ev["a"] == "Rename" && (ev["p"] == "D" || ev["p"] == "E") {
					accepted["RenameDir"]++
				}
				if ev["held"] == true {
					accepted["HeldWrite"]++
				}
			}
		}
		key := fmt.Sprintf("%v|%v", jobs[i].cfg, jobs[i].ops)
		c.Distinct(key)
		if (base+i)%(total/4+1) == 1 {
			c.Sample(map[string]any{"cfg": jobs[i].cfg, "label": jobs[i].label, "ops": jobs[i].ops, "results": resultsOf(behs[i])})
		}
	}
	trace, first := fatTraceBytes(good)
	tv, err := tlc.ValidateTrace(module, cfgFile, trace, nil, 40*time.Minute, false)
	if err != nil {
		c.Broken("%s: %v", module, err)
		return len(good), 0, false
	}
	if tv.InvViolated != "" {
		c.Broken("%s invariant on matched steps: %s", module, tv.InvViolated)
		return len(good), 0, false
	}
	bad := map[int]bool{}
	for k, idx := range tv.Mismatches {
		bi := sort.SearchInts(first, idx+1) - 1
		if bi < 0 {
			continue
		}
		bad[bi] = true
		step := idx - first[bi]
		ev := good[bi][step]
		sigs, msg := sig(goodJobs[bi], step, ev, tv.Details[k])
		ops := goodJobs[bi].ops
		if step < len(ops) {
			ops = ops[:step]
		}
		c.Fail(sigs, msg, map[string]any{"cfg": goodJobs[bi].cfg, "label": goodJobs[bi].label, "ops_up_to_failure": ops, "results_up_to_failure": resultsOf(good[bi][:step+1]), "failing_step": step, "event": ev, "previous_event": prevEv(good[bi], step)})
	}
	return len(good), len(bad), true
}

func resultsOf(evs []map[string]any) []string {
	var out []string
	for _, e := range evs {
		out = append(out, str(e, "a")+":"+str(e, "res"))
	}
	return out
}

func c01Sig(job fatJob, step int, ev map[string]any, detail string) ([]string, string) {
	a, res := str(ev, "a"), str(ev, "res")
	kind := job.cfg.Kind
	sig := fmt.Sprintf("fat-%s-%s", strings.ToLower(a), res)
	api, _ := ev["api"].(map[string]any)
	switch {
	case res == "panic":
		sig = "fat-panic-" + strings.ToLower(a)
	case len(ev["extra"].([]string)) > 0:
		sig = "fat-unexpected-entries-or-read-errors-after-" + strings.ToLower(a)
	case js(ev["api"]) != js(ev["api2"]):
		sig = "fat-live-differs-from-reopened-after-" + strings.ToLower(a)
	case a == "Fill":
		sig = "fat-fill-count"
	default:
		// name the shape of the difference for the target
		if n, ok := api[str(ev, "p")].(map[string]any); ok {
			if d, ok := n["data"].([]int); ok {
				for _, t := range d {
					if t < 0 {
						sig = fmt.Sprintf("fat-%s-content-garbage", strings.ToLower(a))
					}
				}
			}
		}
	}
	if job.cfg.Names == "tricky" {
		sig += "-trickynames"
	}
	msg := fmt.Sprintf("%s %d bytes at %d names=%s [%s]: step %d %s(p=%v q=%v off=%v len=%v tag=%v k=%v) -> %s: tree after the call is explained neither by the accept nor by the refuse branch of FatTree; api=%s extra=%v same=%v err=%v",
		kind, job.cfg.Size, job.cfg.Start, job.cfg.Names, job.label, step, a, ev["p"], ev["q"], ev["off"], ev["len"], ev["tag"], ev["k"], res, trunc(ev["api"]), ev["extra"], ev["same"], ev["errtext"])
	return []string{sig}, msg
}

func C01(c *core.Ctx) {
	c.Rule = "behaviour = (volume configuration, call sequence); call sequences: every sequence of depth D over the boundary alphabet of FatTree_Gen (Mkdir, Create, WriteAt x offsets {0,1,sector,cluster-1,cluster,cluster+1,EOF,EOF+1} x lengths {1,cluster-1,cluster,cluster+1}, Append, Trunc, Rename, Remove, plus calls the tree cannot do) generated by TLC (BFS), TLC -simulate walks incl. Fill, the fragmentation family (every history of chain growth and release over two files, then fill), scripted fill/empty/refill cycles with root-directory churn; two directories with directory rename; write handles kept open across other calls (Hold) while siblings are created, renamed, removed; configurations: FAT12/16/32 x sizes x start offsets x name sets (plain, 8.3-colliding/mixed-case/non-ASCII, short); non-trivial = every behaviour (distinct key = config|sequence)"
	c.Assumptions = []string{"one handle open at a time", "unit->byte map of DESIGN 3.1: model unit offsets visit 0,1,sector,cluster-1 of every cluster", "refusals are never violations except where FatTree demands success (Fill after space was released)"}
	mcCfg := "FatTree_MC.cfg"
	files := map[string][]byte{}
	if c.Tier == "quick" {
		files["mcq.cfg"] = []byte("SPECIFICATION Spec\nCONSTANTS\n  CU = 4\n" + fatUniverseMC + "  Total = 6\n  MaxLen = 9\n  MaxTag = 2\nINVARIANTS TypeOK P_C01_Shape P_C01_Accounting P_C01_FillFills\nPROPERTY P_C01_Release\nVIEW View\nCHECK_DEADLOCK FALSE\n")
		mcCfg = "mcq.cfg"
	}
	mc, err := tlc.Run(tlc.Opts{Module: "FatTree_MC", Config: mcCfg, Workers: 8, Files: files, Timeout: 20 * time.Minute, HeapMB: 8192})
	if err != nil || !mc.OK {
		c.Broken("FatTree_MC: %v", err)
		return
	}
	c.States, c.Transitions = mc.Distinct, mc.Generated
	mc2, err := tlc.Run(tlc.Opts{Module: "FatTree_MC", Config: "FatTree_MC2.cfg", Workers: 4, Timeout: 20 * time.Minute})
	if err != nil || !mc2.OK {
		c.Broken("FatTree_MC (two directories, directory rename): %v", err)
		return
	}
	c.States += mc2.Distinct
	c.Transitions += mc2.Generated
	pl, ok := fatGenerate(c)
	if !ok {
		return
	}
	jobs := fatJobs(c, pl)
	fmt.Printf("C01 behaviours to execute: %d\n", len(jobs))
	fatRunAll(c, jobs, "FatTree_Trace", "FatTree_Trace.cfg", false, false, c01Sig)
}

func prevEv(evs []map[string]any, step int) map[string]any {
	if step <= 0 {
		return nil
	}
	return evs[step-1]
}
