package props

import (
	"fmt"
	"math/rand"
	"sort"
	"strings"

	"github.com/diskfs/go-diskfs/partition/gpt"
	"github.com/diskfs/go-diskfs/partition/mbr"
)

// ---- abstract views of partition tables (what "the same table" means) ----

type gptEnt struct {
	Index int    `json:"idx"`
	Start uint64 `json:"start"`
	End   uint64 `json:"end"`
	Type  string `json:"type"`
	Name  string `json:"name"`
	GUID  string `json:"guid"`
	Attr  uint64 `json:"attr"`
}

type gptView struct {
	GUID  string   `json:"guid"`
	Parts []gptEnt `json:"parts"`
}

func viewGPT(t *gpt.Table) gptView {
	v := gptView{GUID: strings.ToUpper(t.GUID)}
	for _, p := range t.Partitions {
		if p == nil || p.Type == gpt.Unused {
			continue
		}
		v.Parts = append(v.Parts, gptEnt{p.Index, p.Start, p.End, strings.ToUpper(string(p.Type)), p.Name, strings.ToUpper(p.GUID), p.Attributes})
	}
	sort.Slice(v.Parts, func(i, j int) bool { return v.Parts[i].Index < v.Parts[j].Index })
	return v
}

func (a gptView) equal(b gptView) bool {
	if a.GUID != b.GUID || len(a.Parts) != len(b.Parts) {
		return false
	}
	for i := range a.Parts {
		if a.Parts[i] != b.Parts[i] {
			return false
		}
	}
	return true
}

var gptTypes = []gpt.Type{gpt.EFISystemPartition, gpt.LinuxFilesystem, gpt.MicrosoftBasicData, gpt.LinuxSwap, gpt.BIOSBoot, "12345678-9ABC-DEF0-1234-56789ABCDEF0"}

func randGUID(r *rand.Rand) string {
	b := make([]byte, 16)
	r.Read(b)
	b[6] = (b[6] & 0x0f) | 0x40
	b[8] = (b[8] & 0x3f) | 0x80
	return strings.ToUpper(fmt.Sprintf("%x-%x-%x-%x-%x", b[0:4], b[4:6], b[6:8], b[8:10], b[10:16]))
}

var gptNames = []string{"", "EFI System", "root", "data-partition-with-a-long-name-36ch", "дані", "名前パーティション", "a", "swap"}

// genGPT builds a table with n partitions at the given indices (nil => 1..n) laid out
// from firstLBA; spelling selects how start/end/size are given per entry
// (0: start+end, 1: start+size, 2: all three).
func genGPT(r *rand.Rand, diskSectors uint64, lss int, n int, indices []int, withGUIDs bool) *gpt.Table {
	t := &gpt.Table{LogicalSectorSize: lss, PhysicalSectorSize: lss, ProtectiveMBR: true}
	if withGUIDs {
		t.GUID = randGUID(r)
	}
	arr := uint64(128 * 128 / lss)
	first := 2 + arr
	last := diskSectors - 2 - arr
	if n == 0 {
		return t
	}
	span := (last - first + 1) / uint64(n)
	if span < 2 {
		span = 2
	}
	for i := 0; i < n; i++ {
		idx := i + 1
		if indices != nil {
			idx = indices[i]
		}
		start := first + uint64(i)*span
		size := 1 + uint64(r.Int63n(int64(span-1)))
		if r.Intn(4) == 0 {
			size = span
		}
		end := start + size - 1
		p := &gpt.Partition{Index: idx, Start: start, Type: gptTypes[r.Intn(len(gptTypes))], Name: gptNames[r.Intn(len(gptNames))], Attributes: []uint64{0, 1, 1 << 63, 1<<60 | 4, ^uint64(0)}[r.Intn(5)]}
		switch r.Intn(3) {
		case 0:
			p.End = end
		case 1:
			p.Size = size * uint64(lss)
		default:
			p.End, p.Size = end, size*uint64(lss)
		}
		if withGUIDs {
			p.GUID = randGUID(r)
		}
		t.Partitions = append(t.Partitions, p)
	}
	return t
}

// cloneGPT returns a fresh, uninitialised copy of the public fields (Write mutates tables).
func cloneGPT(t *gpt.Table) *gpt.Table {
	c := &gpt.Table{LogicalSectorSize: t.LogicalSectorSize, PhysicalSectorSize: t.PhysicalSectorSize, GUID: t.GUID, ProtectiveMBR: t.ProtectiveMBR}
	for _, p := range t.Partitions {
		q := *p
		c.Partitions = append(c.Partitions, &gpt.Partition{Index: q.Index, Start: q.Start, End: q.End, Size: q.Size, Type: q.Type, Name: q.Name, GUID: q.GUID, Attributes: q.Attributes})
	}
	return c
}

type mbrEnt struct {
	Slot  int    `json:"slot"`
	Boot  bool   `json:"boot"`
	Type  int    `json:"type"`
	Start uint32 `json:"start"`
	Size  uint32 `json:"size"`
}

func viewMBR(t *mbr.Table) []mbrEnt {
	var v []mbrEnt
	for i, p := range t.Partitions {
		if p == nil {
			continue
		}
		if p.Type == 0 && p.Start == 0 && p.Size == 0 {
			continue
		}
		v = append(v, mbrEnt{i + 1, p.Bootable, int(p.Type), p.Start, p.Size})
	}
	return v
}
