package props

import (
	"bytes"
	"fmt"
	"io"
	iofs "io/fs"
	"os"
	"os/exec"
	"path/filepath"
	"regexp"
	"sort"
	"strconv"
	"strings"
	"sync"
	"time"

	"github.com/diskfs/go-diskfs/backend/file"
	"github.com/diskfs/go-diskfs/filesystem/ext4"

	"verif/harness/internal/core"
	"verif/harness/internal/fsx"
)

// C20 — ext4 volumes made by the reference mke2fs are read correctly (E2fs.tla).

type e2Node struct {
	kind           string // file dir link
	data           []byte
	link           string
	mode           os.FileMode // permission + setuid/setgid/sticky, 0 = do not set / compare default
	setAttr        bool
	uid, gid       uint32
	mtime          int64
	xattrs         map[string][]byte
	holes          [][2]int64 // [off,len) written data ranges for sparse files (rest are holes)
	sparseSize     int64
	skipContent    bool
	prealloc       int // bytes written on the host; blocks 5..9 are then preallocated with debugfs
	// far: a sparse file far larger than memory - size farSize, data only in the ranges far[i] = [off, len)
	// (byte j of range i is ContentByte(70+i, j)|1); compared through windows around each range
	far     [][2]int64
	farSize int64
}

func farByte(i int, j int64) byte { return fsx.ContentByte(70+i, j) | 1 }

var e2FeatOpts = map[string][]string{
	"default":    {"-t", "ext4"},
	"no64bit":    {"-t", "ext4", "-O", "^64bit"},
	"noflex":     {"-t", "ext4", "-O", "^flex_bg"},
	"nocsum":     {"-t", "ext4", "-O", "^metadata_csum"},
	"nodirindex": {"-t", "ext4", "-O", "^dir_index"},
	"nohuge":     {"-t", "ext4", "-O", "^huge_file"},
	"ss2":        {"-t", "ext4", "-O", "sparse_super2"},
	"nojournal":  {"-t", "ext4", "-O", "^has_journal"},
	"minimal":    {"-t", "ext4", "-O", "^has_journal,^flex_bg,^huge_file,^dir_index,^dir_nlink,^resize_inode,^64bit"},
	"metabg":     {"-t", "ext4", "-O", "meta_bg,^resize_inode"},
	"ext3":       {"-t", "ext3"},
	"ext2":       {"-t", "ext2"},
	"inline":     {"-t", "ext4", "-O", "inline_data"},
	"contig":     {"-t", "ext4", "-O", "sparse_super2,^has_journal"},
}

func e2Tree(t map[string]any) map[string]*e2Node {
	blk, _ := strconv.Atoi(str(t, "blk"))
	isz := str(t, "isz")
	n := map[string]*e2Node{}
	file := func(p string, tag, size int) *e2Node {
		x := &e2Node{kind: "file", data: fsx.Content(tag, size)}
		n[p] = x
		return x
	}
	dir := func(p string) *e2Node { x := &e2Node{kind: "dir"}; n[p] = x; return x }
	link := func(p, target string) { n[p] = &e2Node{kind: "link", link: target} }
	file("a.txt", 1, 3000)
	file("empty", 2, 0)
	file("tiny", 9, 40) // fits in the inode under inline_data
	dir("dir1")
	file("dir1/b.bin", 3, 10)
	dir("dir1/sub")
	dir("dir1/sub/deep")
	file("dir1/sub/deep/exact", 4, blk)
	file("dir1/sub/deep/plus1", 5, blk+1)
	file("multi", 6, 5*blk+123)
	dir("emptydir")
	link("l1", "a.txt")
	switch str(t, "tree") {
	case "huge":
		file("huge.bin", 11, 100<<20)
	case "htree":
		cnt := 1200
		if blk == 1024 {
			cnt = 3500 // two index levels with 1 KiB blocks
		}
		dir("big")
		for i := 0; i < cnt; i++ {
			nm := fmt.Sprintf("big/f%05d%s", i, strings.Repeat("x", i%37))
			switch {
			case i%97 == 0:
				dir(nm)
				file(nm+"/inner", i, 17)
			case i%101 == 0:
				link(nm, fmt.Sprintf("f%05d", i-1))
			default:
				file(nm, i, 1+i%50)
			}
		}
		file("big/"+strings.Repeat("L", 255), 7, 300)
		dir("mid") // a directory of exactly a few blocks
		for i := 0; i < 150; i++ {
			file(fmt.Sprintf("mid/entry-%03d", i), i, 5)
		}
	case "frag":
		// data every other 4 KiB chunk: every chunk its own extent, extent tree with index nodes
		for _, k := range []int{6, 120, 500} {
			x := &e2Node{kind: "file", sparseSize: int64(k)*8192 + 4999}
			buf := make([]byte, x.sparseSize)
			for i := 0; i < k; i++ {
				off := int64(i) * 8192
				x.holes = append(x.holes, [2]int64{off, 4096})
				for j := int64(0); j < 4096; j++ {
					buf[off+j] = fsx.ContentByte(k+i, j)
				}
			}
			x.data = buf
			n[fmt.Sprintf("frag%d", k)] = x
		}
		file("big5m", 8, 5<<20+77)
	case "sparse":
		mk := func(p string, size int64, ranges ...[2]int64) {
			x := &e2Node{kind: "file", sparseSize: size, holes: ranges, data: make([]byte, size)}
			for i, r := range ranges {
				for j := int64(0); j < r[1]; j++ {
					x.data[r[0]+j] = fsx.ContentByte(20+i, j) | 1 // never zero
				}
			}
			n[p] = x
		}
		mk("holes", 3<<20+17, [2]int64{0, 100}, [2]int64{1<<20 + 5, 3000}, [2]int64{2 << 20, 4096})
		mk("allhole", 1<<20)
		mk("tailhole", 200000, [2]int64{0, 5000})
		mk("headhole", 65536+10, [2]int64{65536, 10})
		// data on both sides of 4 GiB in a 5 GiB file (logical block numbers above 2^22 / 2^20, byte offsets above 2^32)
		n["far5g"] = &e2Node{kind: "file", farSize: 5<<30 + 1500, far: [][2]int64{{4096, 3000}, {1<<32 - 1500, 3000}, {1<<32 + 123456, 5000}, {5 << 30, 1500}}}
		// an unwritten (preallocated) extent over blocks that still hold a removed file's bytes
		pre := &e2Node{kind: "file", data: make([]byte, 9*blk+777), prealloc: 3 * blk}
		for j := 0; j < 3*blk; j++ {
			pre.data[j] = fsx.ContentByte(50, int64(j)) | 1
		}
		n["pre"] = pre
		mk("midblock", 40000, [2]int64{0, 4096}, [2]int64{16384, 4096}, [2]int64{36864, 3136})
	case "links":
		for _, l := range []int{1, 2, 59, 60, 61, 100, 255, 1000, 1023} {
			if l < blk {
				link(fmt.Sprintf("ln%d", l), strings.Repeat("t", l))
			}
		}
		link("dir1/rel", "../a.txt")
		link("abs", "/an/absolute/target")
		link("dangling", "no/such/file")
		link("dir1/sub/deep/up", "../../../multi")
	case "xattr":
		x := file("x1", 11, 100)
		x.xattrs = map[string][]byte{"user.a": []byte("small")}
		x = file("x2", 12, 100)
		x.xattrs = map[string][]byte{"user.big": bytes.Repeat([]byte("0123456789abcdef"), 20)} // does not fit in the inode
		x = file("x3", 13, 100)
		x.xattrs = map[string][]byte{}
		for i := 0; i < 12; i++ {
			x.xattrs[fmt.Sprintf("user.k%02d", i)] = []byte(strings.Repeat(string(rune('a'+i)), 3+i*5))
		}
		x = file("x4", 14, 100)
		x.xattrs = map[string][]byte{"security.selinux": []byte("system_u:object_r:etc_t:s0\x00"), "trusted.overlay.opaque": []byte("y"), "user.bin": {0, 1, 2, 255, 0}}
		d := dir("xd")
		d.xattrs = map[string][]byte{"user.dirattr": []byte("on a directory")}
		x = file("x5", 15, 100)
		x.xattrs = map[string][]byte{"user.empty": {}}
	case "attrs":
		i := 0
		times := []int64{1, 315532800, 1700000001, 2147483647}
		if isz == "256" {
			times = append(times, 2147483648, 4102444799)
		}
		ids := []uint32{0, 1000, 65535, 65536, 4294967294}
		for _, m := range []os.FileMode{0o644, 0o755 | os.ModeSetuid, 0o750 | os.ModeSetgid, 0o000, 0o777 | os.ModeSetuid | os.ModeSetgid | os.ModeSticky, 0o421} {
			x := file(fmt.Sprintf("m%d", i), 30+i, 20+i)
			x.setAttr, x.mode, x.uid, x.gid, x.mtime = true, m, ids[i%len(ids)], ids[(i+2)%len(ids)], times[i%len(times)]
			i++
		}
		d := dir("sticky")
		d.setAttr, d.mode, d.uid, d.gid, d.mtime = true, 0o777|os.ModeSticky, 65536, 7, 1600000000
		file("sticky/in", 40, 1)
	}
	return n
}

var (
	reFlags = regexp.MustCompile(`Flags: 0x([0-9a-f]+)`)
	reETB   = regexp.MustCompile(`\(ETB(\d+)\)`)
)

type e2Stats struct {
	mu                                                  sync.Mutex
	built, mkfsFailed, refused, opened                  int
	htree, depth1, depth2, holes, slowlink, xblock, inl int
}

func run(dir string, name string, args ...string) (string, error) {
	cmd := exec.Command(name, args...)
	cmd.Dir = dir
	out, err := cmd.CombinedOutput()
	return string(out), err
}

func c20Exec(st *e2Stats) func(t map[string]any, idx int) map[string]any {
	return func(t map[string]any, idx int) map[string]any {
		ev := map[string]any{"t": t, "open": "ok", "bad": []any{}, "extra": 0, "n": 0, "build": "ok"}
		work, err := os.MkdirTemp("", "e2fs")
		if err != nil {
			ev["build"] = "tmp: " + err.Error()
			return ev
		}
		defer os.RemoveAll(work)
		src := filepath.Join(work, "src")
		os.Mkdir(src, 0o755)
		tree := e2Tree(t)
		paths := make([]string, 0, len(tree))
		for p := range tree {
			paths = append(paths, p)
		}
		sort.Strings(paths)
		for _, p := range paths {
			n, hp := tree[p], filepath.Join(src, filepath.FromSlash(p))
			os.MkdirAll(filepath.Dir(hp), 0o755)
			switch n.kind {
			case "dir":
				err = os.MkdirAll(hp, 0o755)
			case "link":
				err = os.Symlink(n.link, hp)
			default:
				if n.prealloc > 0 {
					err = os.WriteFile(hp, n.data[:n.prealloc], 0o644)
					if err == nil {
						err = os.WriteFile(filepath.Join(src, "zzjunk"), bytes.Repeat([]byte{0xAA}, 40*len(n.data)/9), 0o644)
					}
				} else if n.farSize > 0 {
					var f *os.File
					if f, err = os.Create(hp); err == nil {
						for i, r := range n.far {
							b := make([]byte, r[1])
							for j := range b {
								b[j] = farByte(i, int64(j))
							}
							f.WriteAt(b, r[0])
						}
						f.Truncate(n.farSize)
						f.Close()
					}
				} else if n.sparseSize > 0 {
					var f *os.File
					if f, err = os.Create(hp); err == nil {
						for _, r := range n.holes {
							f.WriteAt(n.data[r[0]:r[0]+r[1]], r[0])
						}
						f.Truncate(n.sparseSize)
						f.Close()
					}
				} else {
					err = os.WriteFile(hp, n.data, 0o644)
				}
			}
			if err != nil {
				ev["build"] = "host tree: " + err.Error()
				return ev
			}
		}
		// attributes last, deepest first, so that directory times survive
		for i := len(paths) - 1; i >= 0; i-- {
			n, hp := tree[paths[i]], filepath.Join(src, filepath.FromSlash(paths[i]))
			if n.setAttr {
				os.Lchown(hp, int(n.uid), int(n.gid))
				os.Chmod(hp, n.mode)
				os.Chtimes(hp, time.Unix(n.mtime, 0), time.Unix(n.mtime, 0))
			}
		}
		img := filepath.Join(work, "img")
		args := append([]string{"-q", "-F", "-b", str(t, "blk"), "-I", str(t, "isz"), "-g", "8192", "-E", "root_owner=0:0"}, e2FeatOpts[str(t, "feat")]...)
		imgSize := "96M"
		if str(t, "tree") == "huge" {
			imgSize = "160M"
		}
		args = append(args, "-d", src, img, imgSize)
		if out, err := run(work, "/usr/sbin/mke2fs", args...); err != nil {
			ev["build"] = "mke2fs: " + trunc(out)
			return ev
		}
		// xattrs through debugfs
		var script strings.Builder
		vi := 0
		for _, p := range paths {
			names := make([]string, 0)
			for k := range tree[p].xattrs {
				names = append(names, k)
			}
			sort.Strings(names)
			for _, k := range names {
				vf := filepath.Join(work, fmt.Sprintf("val%d", vi))
				vi++
				os.WriteFile(vf, tree[p].xattrs[k], 0o644)
				fmt.Fprintf(&script, "ea_set -f %s /%s %s\n", vf, p, k)
			}
		}
		for _, p := range paths {
			if n := tree[p]; n.prealloc > 0 {
				fmt.Fprintf(&script, "rm /zzjunk\nfallocate /%s 5 9\nsif /%s size %d\n", p, p, len(n.data))
			}
		}
		for _, p := range paths {
			if n := tree[p]; n.setAttr && n.mtime >= 1<<31 {
				// mke2fs 1.47.0 -d does not store the epoch bits of times after 2038
				fmt.Fprintf(&script, "sif /%s mtime_extra 1\n", p)
			}
		}
		if script.Len() > 0 {
			sf := filepath.Join(work, "script")
			os.WriteFile(sf, []byte(script.String()), 0o644)
			if out, err := run(work, "/usr/sbin/debugfs", "-w", "-f", sf, img); err != nil || strings.Contains(out, "ea_set:") && strings.Contains(out, "rror") {
				ev["build"] = "debugfs: " + trunc(out)
				return ev
			}
		}
		// mke2fs -d writes linear directories; e2fsck -D builds the hash index for multi-block ones
		if str(t, "tree") == "htree" {
			run(work, "/usr/sbin/e2fsck", "-f", "-y", "-D", img)
		}
		if out, err := run(work, "/usr/sbin/e2fsck", "-f", "-n", img); err != nil {
			ev["build"] = "e2fsck on the reference image: " + trunc(out)
			return ev
		}
		// the reference tools must agree that sparse files hold what was put in (mke2fs 1.47.0 with
		// inline_data drops a trailing hole): otherwise the node's size and content are not compared
		skipped := 0
		for _, p := range paths {
			if n := tree[p]; (n.sparseSize > 0 || n.prealloc > 0) && n.farSize == 0 {
				out := filepath.Join(work, "dump")
				os.Remove(out)
				run(work, "/usr/sbin/debugfs", "-R", fmt.Sprintf("dump /%s %s", p, out), img)
				if got, err := os.ReadFile(out); err != nil || !bytes.Equal(got, n.data) {
					n.skipContent = true
					skipped++
				}
			}
		}
		ev["reference_differs"] = skipped
		// which on-disk structures does this image really contain (non-vacuity accounting)
		facts := map[string]bool{}
		probe := func(p string) (flags uint64, depth int) {
			out, _ := run(work, "/usr/sbin/debugfs", "-R", "stat /"+p, img)
			if m := reFlags.FindStringSubmatch(out); m != nil {
				flags, _ = strconv.ParseUint(m[1], 16, 64)
			}
			depth = -1
			for _, m := range reETB.FindAllStringSubmatch(out, -1) {
				if d, _ := strconv.Atoi(m[1]); d > depth {
					depth = d
				}
			}
			return
		}
		for _, p := range []string{"big", "frag500", "frag120", "holes", "x2", "tiny", "ln100"} {
			if _, ok := tree[p]; !ok {
				continue
			}
			fl, depth := probe(p)
			if fl&0x1000 != 0 {
				facts["htree"] = true
			}
			if depth >= 0 {
				facts["depth1"] = true
			}
			if depth >= 1 {
				facts["depth2"] = true
			}
			if fl&0x10000000 != 0 {
				facts["inline"] = true
			}
			if p == "holes" {
				facts["holes"] = true
			}
			if p == "ln100" {
				facts["slowlink"] = true
			}
			if p == "x2" {
				facts["xblock"] = true
			}
		}
		ev["facts"] = facts
		ev["n"] = len(tree)
		// ---- the library ----
		f, err := os.Open(img)
		if err != nil {
			ev["build"] = err.Error()
			return ev
		}
		defer f.Close()
		fi, _ := f.Stat()
		var fs *ext4.FileSystem
		var oerr error
		if pn := fsx.Catch(func() { fs, oerr = ext4.Read(file.New(f, true), fi.Size(), 0, 512) }); pn != "" {
			ev["open"], ev["detail"] = "panic", pn
			return ev
		}
		if oerr != nil || fs == nil {
			ev["open"], ev["detail"] = "refused", fmt.Sprint(oerr)
			return ev
		}
		bad := []any{}
		addBad := func(p, st, what string) { bad = append(bad, map[string]any{"p": p, "st": st, "what": trunc(what)}) }
		seen := map[string]bool{}
		extra := 0
		failedDirs := []string{}
		var walk func(dir string, depth int)
		walk = func(dir string, depth int) {
			var ents []iofs.DirEntry
			var err error
			rd := dir
			if rd == "" {
				rd = "."
			}
			if pn := fsx.Catch(func() { ents, err = fs.ReadDir(rd) }); pn != "" {
				addBad(rd, "panic", "ReadDir: "+pn)
				failedDirs = append(failedDirs, dir)
				return
			}
			if err != nil {
				addBad(rd, "error", "ReadDir: "+err.Error())
				failedDirs = append(failedDirs, dir)
				return
			}
			for _, e := range ents {
				nm := e.Name()
				if nm == "." || nm == ".." || (dir == "" && nm == "lost+found") {
					continue
				}
				p := nm
				if dir != "" {
					p = dir + "/" + nm
				}
				want, ok := tree[p]
				if !ok || seen[p] {
					extra++
					addBad(p, "wrong", "entry listed that was never put in (or listed twice)")
					continue
				}
				seen[p] = true
				var info iofs.FileInfo
				if pn := fsx.Catch(func() { info, err = fs.Stat(p) }); pn != "" {
					addBad(p, "panic", "Stat: "+pn)
					continue
				}
				if err != nil {
					addBad(p, "error", "Stat: "+err.Error())
					continue
				}
				kind := "file"
				switch {
				case info.IsDir():
					kind = "dir"
				case info.Mode()&os.ModeSymlink != 0:
					kind = "link"
				case !info.Mode().IsRegular():
					kind = "other"
				}
				if kind != want.kind {
					addBad(p, "wrong", fmt.Sprintf("kind %s, put in as %s", kind, want.kind))
					continue
				}
				if (e.IsDir()) != (kind == "dir") {
					addBad(p, "wrong", "directory entry type and inode type disagree")
				}
				if want.setAttr {
					if g, w := modeString(info.Mode()), modeString(want.mode); g != w {
						addBad(p, "wrong", "mode "+g+", put in "+w)
					}
					if info.ModTime().Unix() != want.mtime {
						addBad(p, "wrong", fmt.Sprintf("mtime %d, put in %d", info.ModTime().Unix(), want.mtime))
					}
					if s, ok := info.Sys().(*ext4.StatT); !ok || s == nil {
						addBad(p, "error", "no StatT")
					} else if s.UID != want.uid || s.GID != want.gid {
						addBad(p, "wrong", fmt.Sprintf("owner %d:%d, put in %d:%d", s.UID, s.GID, want.uid, want.gid))
					}
				}
				// xattrs of every node
				var xa map[string][]byte
				if pn := fsx.Catch(func() { xa, err = fs.GetXattr(p) }); pn != "" {
					addBad(p, "panic", "GetXattr: "+pn)
				} else if err != nil {
					if len(want.xattrs) > 0 {
						addBad(p, "error", "GetXattr: "+err.Error())
					}
				} else {
					for k, v := range want.xattrs {
						if g, ok := xa[k]; !ok {
							addBad(p, "wrong", "xattr "+k+" not reported")
						} else if !bytes.Equal(g, v) {
							addBad(p, "wrong", fmt.Sprintf("xattr %s = %q, put in %q", k, trunc(string(g)), trunc(string(v))))
						}
					}
					for k := range xa {
						if k == "system.data" {
							continue // carrier of inline data, not an attribute that was put in
						}
						if _, ok := want.xattrs[k]; !ok {
							addBad(p, "wrong", "xattr "+k+" reported but never put in")
						}
					}
				}
				switch kind {
				case "dir":
					if depth < 20 {
						walk(p, depth+1)
					}
				case "link":
					var tgt string
					if pn := fsx.Catch(func() { tgt, err = fs.ReadLink(p) }); pn != "" {
						addBad(p, "panic", "ReadLink: "+pn)
					} else if err != nil {
						addBad(p, "error", "ReadLink: "+err.Error())
					} else if tgt != want.link {
						addBad(p, "wrong", fmt.Sprintf("link target %q (%d bytes), put in %d bytes", trunc(tgt), len(tgt), len(want.link)))
					}
				case "file":
					if want.skipContent {
						continue
					}
					if want.farSize > 0 {
						if info.Size() != want.farSize {
							addBad(p, "wrong", fmt.Sprintf("size %d, put in %d", info.Size(), want.farSize))
							continue
						}
						var msg, st string
						if pn := fsx.Catch(func() {
							h, err := fs.OpenFile(p, os.O_RDONLY)
							if err != nil {
								st, msg = "error", "open: "+err.Error()
								return
							}
							defer h.Close()
							window := func(off, n int64) []byte {
								if off < 0 {
									n += off
									off = 0
								}
								if off+n > want.farSize {
									n = want.farSize - off
								}
								if _, err := h.Seek(off, io.SeekStart); err != nil {
									st, msg = "error", fmt.Sprintf("seek %d: %v", off, err)
									return nil
								}
								b := make([]byte, n)
								if _, err := io.ReadFull(h, b); err != nil {
									st, msg = "error", fmt.Sprintf("read %d bytes at %d: %v", n, off, err)
									return nil
								}
								return b
							}
							expect := func(off int64) byte {
								for i, r := range want.far {
									if off >= r[0] && off < r[0]+r[1] {
										return farByte(i, off-r[0])
									}
								}
								return 0
							}
							var starts []int64
							for _, r := range want.far {
								starts = append(starts, r[0]-2000)
							}
							starts = append(starts, 0, 1<<31-1000, 1<<32-10000, 3<<30, want.farSize-3000)
							for _, o := range starts {
								if st != "" {
									return
								}
								if o < 0 {
									o = 0
								}
								b := window(o, 9000)
								for k := range b {
									if b[k] != expect(o+int64(k)) {
										st, msg = "wrong", fmt.Sprintf("content of a sparse file differs at byte %d (window at %d): got %#x want %#x", o+int64(k), o, b[k], expect(o+int64(k)))
										return
									}
								}
							}
						}); pn != "" {
							addBad(p, "panic", "read: "+pn)
						} else if st != "" {
							addBad(p, st, msg)
						}
						continue
					}
					if info.Size() != int64(len(want.data)) {
						addBad(p, "wrong", fmt.Sprintf("size %d, put in %d", info.Size(), len(want.data)))
						continue
					}
					var data []byte
					if pn := fsx.Catch(func() {
						var h interface {
							Read([]byte) (int, error)
							Close() error
						}
						h, err = fs.OpenFile(p, os.O_RDONLY)
						if err != nil {
							return
						}
						data, err = fsx.ReadAll(h, int64(len(want.data))+4096)
						h.Close()
					}); pn != "" {
						addBad(p, "panic", "read: "+pn)
						continue
					}
					if err != nil {
						addBad(p, "error", "read: "+err.Error())
						continue
					}
					if !bytes.Equal(data, want.data) {
						at := 0
						for at < len(data) && at < len(want.data) && data[at] == want.data[at] {
							at++
						}
						what := "content differs"
						if want.prealloc > 0 {
							what = "content of a file with an unwritten extent differs"
						} else if len(want.holes) > 0 || want.sparseSize > 0 {
							what = "content of a sparse file differs"
						}
						addBad(p, "wrong", fmt.Sprintf("%s: %d bytes delivered, %d put in, first difference at %d", what, len(data), len(want.data), at))
					}
				}
			}
		}
		walk("", 0)
		for _, p := range paths {
			if seen[p] {
				continue
			}
			under := false
			for _, d := range failedDirs {
				if d == "" || strings.HasPrefix(p, d+"/") {
					under = true
				}
			}
			par := filepath.ToSlash(filepath.Dir(p))
			if par != "." && !seen[par] {
				under = true // reported at the ancestor
			}
			if !under {
				addBad(p, "missing", "not listed in its directory")
			}
		}
		ev["bad"], ev["extra"] = bad, extra
		return ev
	}
}

func C20(c *core.Ctx) {
	c.Rule = "case = one tuple of E2fs.tla = one image built by /usr/sbin/mke2fs -d (+ debugfs ea_set) and accepted by e2fsck -fn: block size 1k/2k/4k x inode size 128/256 x feature class {default, ^64bit, ^flex_bg, ^metadata_csum, ^dir_index, ^huge_file, sparse_super2, no journal, minimal, meta_bg, ext3, ext2, inline_data} x tree class {small, htree (1200/3500 entries, 255-char name), frag (6/120/500 extents with holes, 5 MiB file), sparse (head/middle/tail/all hole), links (1..1023 bytes), xattr (in-inode, block, 12 names, binary, on a directory), attrs (modes, owners to 2^32-2, times 1970..2099), huge (one 100 MiB file in a 160 MiB image; with sparse_super2 and no journal its extents of maximal length follow one another on disk)}; all tuples within MaxDev deviations of the base (quick 2, thorough 4 = full product); 96 MiB, 8192 blocks per group; every node is listed, stat'ed, read in full, its link target and xattrs compared; non-trivial = the library opened the image (distinct key = tuple)"
	c.Assumptions = []string{"the reference image is what was put in: e2fsck -fn accepts it; debugfs stat confirms hash-indexed directories, extent tree depth, inline data (counted in evidence extra)", "atime/ctime are not compared (mke2fs -d takes them from the host at build time)", "needs root to place owners on the host tree"}
	maxDev := 2
	if c.Tier == "thorough" {
		maxDev = 4
	}
	st := &e2Stats{}
	ts := tupleSpace{GenModule: "E2fs_Gen", GenCfg: fmt.Sprintf("SPECIFICATION Spec\nCONSTANT MaxDev = %d\nINVARIANT Emit\nCHECK_DEADLOCK FALSE\n", maxDev), TraceModule: "E2fs_Trace", TraceCfg: "E2fs_Trace.cfg",
		Exec: c20Exec(st), NonTrivial: func(t, ev map[string]any) bool { return ev["open"] == "ok" },
		Sig: func(t, ev map[string]any, detail string) ([]string, string) {
			feat, tree := str(t, "feat"), str(t, "tree")
			if ev["open"] != "ok" {
				return []string{"e2fs-open-" + str(ev, "open") + "-" + feat}, fmt.Sprintf("image %s: open %v: %v", js(t), ev["open"], ev["detail"])
			}
			sigs := map[string]bool{}
			first := ""
			for _, b := range ev["bad"].([]any) {
				m := b.(map[string]any)
				what := str(m, "what")
				cls := "other"
				switch {
				case strings.Contains(what, "unwritten extent"):
					cls = "unwritten-extent"
				case strings.Contains(what, "sparse file"):
					cls = "sparse-content"
				case strings.Contains(what, "content differs"):
					cls = "content"
				case strings.Contains(what, "xattr"), strings.Contains(what, "GetXattr"):
					cls = "xattr"
				case strings.Contains(what, "link target"), strings.Contains(what, "ReadLink"):
					cls = "symlink"
				case strings.Contains(what, "ReadDir"), strings.Contains(what, "not listed"), strings.Contains(what, "never put in"):
					cls = "directory"
				case strings.Contains(what, "mode "), strings.Contains(what, "owner "), strings.Contains(what, "mtime "):
					cls = "attribute"
				case strings.Contains(what, "size "):
					cls = "size"
				case strings.Contains(what, "read: "), strings.Contains(what, "Stat: "):
					cls = "read"
				}
				unsupp := ""
				if feat == "ext3" || feat == "ext2" || feat == "inline" || str(t, "isz") == "128" {
					if feat == "default" || (feat != "ext3" && feat != "ext2" && feat != "inline") {
						feat = "isz128"
					}
					if str(m, "st") == "error" {
						continue
					}
					unsupp = "-" + feat
				}
				sigs[fmt.Sprintf("e2fs-%s-%s%s", cls, str(m, "st"), unsupp)] = true
				if first == "" {
					first = fmt.Sprintf("%s: %s (%s)", str(m, "p"), what, str(m, "st"))
				}
			}
			out := []string{}
			for s := range sigs {
				out = append(out, s)
			}
			sort.Strings(out)
			if len(out) == 0 {
				out = []string{"e2fs-extra-entries"}
			}
			return out, fmt.Sprintf("mke2fs image %s (tree %s): %d of %v nodes not read back as put in; first: %s", js(t), tree, len(ev["bad"].([]any)), ev["n"], first)
		}}
	facts := map[string]int{}
	notBuilt := map[string]int{}
	ts.Keep = func(ev map[string]any) bool {
		if ev["build"] != "ok" {
			facts["not-built"]++
			notBuilt[strings.SplitN(str(ev, "build"), "\n", 2)[0]]++
			return false
		}
		facts["built"]++
		facts["open-"+str(ev, "open")]++
		if ev["open"] == "refused" {
			notBuilt["REFUSED feat="+str(toStrMap(ev["t"]), "feat")+" isz="+str(toStrMap(ev["t"]), "isz")+": "+str(ev, "detail")]++
		}
		if ev["open"] == "ok" {
			if fm, ok := ev["facts"].(map[string]bool); ok {
				for k, v := range fm {
					if v {
						facts["opened-with-"+k]++
					}
				}
			}
		}
		return true
	}
	ts.run(c)
	if c.Extra == nil {
		c.Extra = map[string]any{}
	}
	c.Extra["image_facts"] = facts
	c.Extra["not_built_reasons"] = notBuilt
	fmt.Printf("C20 images: %v\n", facts)
	for k, v := range notBuilt {
		fmt.Printf("C20 not built (%d): %s\n", v, k)
	}
	if facts["open-ok"] == 0 {
		c.Broken("no reference image was opened by the library (built %d)", facts["built"])
	}
}
