package props

import (
	"bytes"
	"crypto/sha256"
	"encoding/hex"
	"encoding/json"
	"fmt"
	"io"
	"os"
	"sort"
	"strings"

	"github.com/diskfs/go-diskfs/filesystem"

	"verif/harness/internal/fsx"
	"verif/harness/internal/memdev"
	"verif/harness/internal/rawfat"
)

// FAT driver shared by C01 (tree semantics), C08 (on-disk soundness), C03 (writes stay
// inside the volume), C14 (reproducible images) and C11 (read-only).  It executes the
// calls of FatTree.tla on a real fat12/16/32 volume on a memdev and records, after every
// call, the projections the trace specs judge.

var fatPaths = []string{"A", "b", "L1", "L2", "D/A", "D/b", "D", "E/A", "E/b", "E"}

type fatOp struct {
	A   string `json:"a"`
	P   string `json:"p,omitempty"`
	Q   string `json:"q,omitempty"`
	Off int    `json:"off,omitempty"`
	Len int    `json:"len,omitempty"`
	Tag int    `json:"tag,omitempty"`
	K   int    `json:"k,omitempty"`
	// Held: this write goes through the handle that an earlier Hold call opened on the file and kept
	Held bool `json:"held,omitempty"`
}

type fatCfg struct {
	Kind   string `json:"kind"`
	Size   int64  `json:"size"`
	Start  int64  `json:"start"`
	Sector int64  `json:"sector"`
	Names  string `json:"names"`
	Repro  bool   `json:"repro"`
	// Preload: bytes written to BIG.BIN right after Create so that later allocations get
	// high cluster numbers (>= 65536 on FAT32); BIG.BIN is not part of the path universe
	Preload int64 `json:"preload,omitempty"`
	// PreloadClusters: the same, counted in clusters of the volume (to bring the next free cluster next
	// to an entry that sits on a FAT sector boundary: FAT12 341/682, FAT16 multiples of 256, FAT32 of 128)
	PreloadClusters int `json:"preload_clusters,omitempty"`
}

// name sets: model path -> real name (lookups may use a case variant)
var fatNameSets = map[string]map[string]string{
	"plain": {"A": "A.TXT", "b": "b.txt", "L1": "longfilename1.dat", "L2": "longfilename2.dat", "D": "DIR", "D/A": "DIR/A.TXT", "D/b": "DIR/b.txt", "E": "Another Directory", "E/A": "Another Directory/A.TXT", "E/b": "Another Directory/b.txt"},
	// names that collide after 8.3 conversion, mixed case, spaces, non-ASCII, a long directory name
	"tricky": {"A": "a b.txt", "b": "ab.txt", "L1": "Report.final.v2.TXT", "L2": "Report.final.v1.TXT", "D": "My Documents.dir", "D/A": "My Documents.dir/Mixed Case.Txt", "D/b": "My Documents.dir/grüße.txt", "E": "My Documents.old", "E/A": "My Documents.old/Mixed Case.Txt", "E/b": "My Documents.old/grüße.txt"},
	// 8.3 upper-case only (no long-name slots at all)
	"short": {"A": "A", "b": "B.B", "L1": "LONGNAME.DAT", "L2": "LONGNAM2.DAT", "D": "D", "D/A": "D/A", "D/b": "D/B.B", "E": "E.DIR", "E/A": "E.DIR/A", "E/b": "E.DIR/B.B"},
}

type fatRun struct {
	cfg    fatCfg
	vol    *fsx.Vol
	B      int64
	names  map[string]string
	rev    map[string]string
	sizeU  map[string]int // mirror of file sizes in units (only to place appends)
	maxTag int
	step   int
	kept   map[string]filesystem.File // handles opened by Hold and not used yet
	sha    bool // record SHA-256 of the volume range after every call (C14)
	raw    bool // record the raw projection (C08)
}

func swapCase(s string) string {
	r := []rune(s)
	for i, c := range r {
		switch {
		case c >= 'a' && c <= 'z':
			r[i] = c - 32
		case c >= 'A' && c <= 'Z':
			r[i] = c + 32
		}
	}
	return string(r)
}

func newFatRun(cfg fatCfg, sha, raw bool) (*fatRun, map[string]any, error) {
	r := &fatRun{cfg: cfg, names: map[string]string{}, rev: map[string]string{}, sizeU: map[string]int{}, sha: sha, raw: raw}
	for k, v := range fatNameSets[cfg.Names] {
		r.names[k] = v // a private copy: a rename onto an 8.3 alias changes the spelling of that path (see do)
		r.rev[v] = k
	}
	devSize := cfg.Start + cfg.Size + 1<<20
	d := memdev.NewPattern(devSize)
	if sha {
		// images are compared between volumes at different offsets: the never-written
		// background must not depend on the position
		d = memdev.New(devSize)
	}
	d.FailOutside = []memdev.Range{{Off: cfg.Start, Len: cfg.Size}}
	vol, err := fsx.CreateOn(cfg.Kind, d, fsx.Opt{Start: cfg.Start, Size: cfg.Size, Sector: cfg.Sector, Repro: cfg.Repro, Label: "VERIF"})
	if err != nil {
		return nil, nil, err
	}
	r.vol = vol
	r.B = vol.Block
	if cfg.PreloadClusters > 0 {
		cfg.Preload = int64(cfg.PreloadClusters) * vol.Block
		r.cfg.Preload = cfg.Preload
	}
	if cfg.Preload > 0 {
		if err := fsx.WriteFile(vol.FS, "BIG.BIN", fsx.Content(99, int(cfg.Preload))); err != nil {
			return nil, nil, fmt.Errorf("preload: %w", err)
		}
	}
	ev := r.event(fatOp{A: "Reset"}, "ok", "", nil)
	ev["cfg"] = cfg
	return r, ev, nil
}

func (r *fatRun) unit(u int) int64 { return unit(u, r.B) }

// tagsOf maps real file content back to one write tag per unit (0 = zeros, -1 = garbage).
func (r *fatRun) tagsOf(data []byte) []int {
	n := int64(len(data))
	u := 0
	for ; u < 4000 && r.unit(u) < n; u++ {
	}
	if r.unit(u) != n {
		return []int{-2} // size is not at a unit boundary
	}
	out := make([]int, u)
	for i := 0; i < u; i++ {
		lo, hi := r.unit(i), r.unit(i+1)
		seg := data[lo:hi]
		zero := true
		for _, x := range seg {
			if x != 0 {
				zero = false
				break
			}
		}
		if zero {
			out[i] = 0
			continue
		}
		out[i] = -1
		for t := 1; t <= r.maxTag+1; t++ {
			ok := true
			for k, x := range seg {
				if x != fsx.ContentByte(t, lo+int64(k)) {
					ok = false
					break
				}
			}
			if ok {
				out[i] = t
				break
			}
		}
	}
	return out
}

func (r *fatRun) content(tag int, lo, hi int64) []byte {
	b := make([]byte, hi-lo)
	for i := range b {
		b[i] = fsx.ContentByte(tag, lo+int64(i))
	}
	return b
}

func (r *fatRun) project(fs filesystem.FileSystem) (map[string]any, []string) {
	tree := map[string]any{}
	for _, p := range fatPaths {
		tree[p] = map[string]any{"kind": "none"}
	}
	walked, err := fsx.WalkSkip(fs, 64<<20, func(p string) bool { return p == "BIG.BIN" })
	if err != nil {
		for _, p := range fatPaths {
			tree[p] = map[string]any{"kind": "error"}
		}
		return tree, []string{"walk: " + err.Error()}
	}
	extra := []string{}
	for name, n := range walked {
		if name == "BIG.BIN" && r.cfg.Preload > 0 {
			continue
		}
		p, ok := r.rev[name]
		if !ok {
			extra = append(extra, name)
			continue
		}
		switch n.Kind {
		case "dir":
			tree[p] = map[string]any{"kind": "dir"}
		case "file":
			if n.Err != "" {
				tree[p] = map[string]any{"kind": "file", "data": []int{-3}}
				extra = append(extra, "read "+name+": "+n.Err)
				continue
			}
			tags := r.tagsOf(n.Data)
			if int64(len(n.Data)) != n.Size {
				tags = []int{-4} // listing size and content length disagree
			}
			tree[p] = map[string]any{"kind": "file", "data": tags}
		default:
			tree[p] = map[string]any{"kind": n.Kind}
		}
	}
	sort.Strings(extra)
	return tree, extra
}

func (r *fatRun) rawProjection() map[string]any {
	v, err := rawfat.Parse(r.vol.Dev, r.cfg.Start, r.cfg.Size)
	if err != nil {
		return map[string]any{"ok": false, "err": err.Error(), "type": "", "ncl": 0, "cb": 0, "bootok": false, "fitsrange": false, "backupeq": false, "fsinfook": false, "fsinfofreeok": false,
			"fatseq": false, "ents": []any{}, "used": [][2]int{}, "beyond": []int{}, "rootchain": [][2]int{}, "rootbad": "parse", "problems": []string{err.Error()}, "free": 0}
	}
	ents := []any{}
	for _, e := range v.Entries {
		ch := make([]int, len(e.Chain))
		for i, c := range e.Chain {
			ch[i] = int(c)
		}
		ents = append(ents, map[string]any{"path": e.Path, "dir": e.IsDir, "first": int(e.First), "size": int(e.Size), "chain": toRanges(ch), "clen": len(ch), "bad": e.Bad, "lfnbad": e.LFNBad})
	}
	usedList := []int{}
	free := 0
	for c := 2; c < len(v.FAT); c++ {
		if v.FAT[c] != 0 {
			usedList = append(usedList, c)
		} else {
			free++
		}
	}
	used := toRanges(usedList)
	beyond := []int{}
	for _, c := range v.Beyond {
		beyond = append(beyond, int(c))
	}
	rootList := []int{}
	for _, c := range v.RootChain {
		rootList = append(rootList, int(c))
	}
	root := toRanges(rootList)
	probs := v.Problems
	if probs == nil {
		probs = []string{}
	}
	is32 := v.Type == "fat32"
	return map[string]any{"ok": true, "err": "", "type": v.Type, "ncl": int(v.DataClusters), "cb": int(v.ClusterBytes), "bootok": v.BootSigOK,
		"fitsrange": v.TotalSectors*int64(v.BPS) <= r.cfg.Size && v.DataStart+v.DataClusters*v.ClusterBytes <= r.cfg.Size,
		"backupeq": !is32 || v.BackupEqual, "fsinfook": !is32 || v.FSInfoSigOK,
		"fsinfofreeok": !is32 || v.FSInfoFree == 0xFFFFFFFF || int64(v.FSInfoFree) <= v.DataClusters,
		"fatseq": v.FATsEqual, "ents": ents, "used": used, "beyond": beyond, "rootchain": root, "rootbad": v.RootBad, "problems": probs, "free": free,
		"kindok": v.Type == r.cfg.Kind}
}

func (r *fatRun) event(op fatOp, res, panicked string, same []int) map[string]any {
	ev := map[string]any{"a": op.A, "p": op.P, "q": op.Q, "off": op.Off, "len": op.Len, "tag": op.Tag, "k": op.K, "res": res, "panic": panicked, "held": op.Held}
	api, extra := r.project(r.vol.FS)
	ev["api"] = api
	var api2 map[string]any
	var extra2 []string
	re, err := r.vol.Reopen()
	if err != nil {
		api2 = map[string]any{}
		for _, p := range fatPaths {
			api2[p] = map[string]any{"kind": "error"}
		}
		extra2 = []string{"reopen: " + err.Error()}
	} else {
		api2, extra2 = r.project(re)
	}
	ev["api2"] = api2
	ev["extra"] = append(extra, extra2...)
	if same == nil {
		same = []int{}
	}
	ev["same"] = same
	d := r.vol.Dev
	out := int64(0)
	for _, o := range d.Outside {
		out += o.Len
	}
	ev["outside"] = out
	if len(d.Outside) > 0 {
		ev["first_outside"] = fmt.Sprintf("%d+%d", d.Outside[0].Off-r.cfg.Start, d.Outside[0].Len)
	}
	if r.raw || op.A == "Reset" {
		raw := r.rawProjection()
		ev["raw"] = raw
		if op.A == "Reset" {
			ev["total"] = raw["free"]
			if !r.raw {
				delete(ev, "raw")
			}
		}
	}
	if r.sha {
		h := d.SHA(r.cfg.Start, r.cfg.Size)
		ev["sha"] = hex.EncodeToString(h[:8])
	}
	return ev
}

func (r *fatRun) real(p string, variant bool) string {
	n := r.names[p]
	if variant {
		// case variant of the last path element only when the whole name stays distinct
		return swapCase(n)
	}
	return n
}

// alias returns the path of an existing entry with its last element replaced by the entry's 8.3 alias, as
// the independent parser reads it from the directory ("" when the entry has no separate alias): the
// library must treat the alias and the long name as the same file.
func (r *fatRun) alias(p string) string {
	if r.cfg.Size > 5<<20 {
		return ""
	}
	v, err := rawfat.Parse(r.vol.Dev, r.cfg.Start, r.cfg.Size)
	if err != nil {
		return ""
	}
	want := "/" + strings.Trim(r.names[p], "/")
	for _, e := range v.Entries {
		if strings.EqualFold(e.Path, want) || strings.EqualFold("/"+strings.Trim(e.Path, "/"), want) {
			base := want[strings.LastIndex(want, "/")+1:]
			if e.Short == "" || strings.EqualFold(e.Short, base) {
				return ""
			}
			return strings.TrimPrefix(want[:strings.LastIndex(want, "/")+1]+e.Short, "/")
		}
	}
	return ""
}

// do executes one call and returns its event.
func (r *fatRun) do(op fatOp) map[string]any {
	if op.Tag > r.maxTag {
		r.maxTag = op.Tag
	}
	fs := r.vol.FS
	res := "ok"
	var same []int
	r.step++
	variant := r.step%2 == 0 && r.cfg.Names != "tricky"
	aliasUsed := false
	var err error
	panicked := fsx.Catch(func() {
		switch op.A {
		case "Mkdir":
			err = fs.Mkdir(r.real(op.P, false))
		case "Create":
			var f filesystem.File
			f, err = fs.OpenFile(r.real(op.P, false), os.O_CREATE|os.O_RDWR)
			if err == nil {
				err = f.Close()
				if _, seen := r.sizeU[op.P]; !seen {
					r.sizeU[op.P] = 0
				}
			}
		case "Hold":
			var f filesystem.File
			f, err = fs.OpenFile(r.real(op.P, false), os.O_RDWR)
			if err == nil {
				if r.kept == nil {
					r.kept = map[string]filesystem.File{}
				}
				r.kept[op.P] = f
			}
		case "WriteAt", "Append":
			flag := os.O_RDWR
			off := op.Off
			if op.A == "Append" {
				flag |= os.O_APPEND
				off = r.sizeU[op.P]
			}
			var f filesystem.File
			if kf, ok := r.kept[op.P]; ok && op.Held {
				// the handle was opened some calls ago and has been kept open since
				f = kf
				delete(r.kept, op.P)
			} else {
				f, err = fs.OpenFile(r.real(op.P, variant), flag)
				if err != nil {
					return
				}
			}
			defer f.Close()
			lo, hi := r.unit(off), r.unit(off+op.Len)
			if op.A == "WriteAt" || op.Held {
				if _, err = f.Seek(lo, io.SeekStart); err != nil {
					return
				}
			}
			var n int
			n, err = f.Write(r.content(op.Tag, lo, hi))
			if err != nil {
				return
			}
			if int64(n) != hi-lo {
				err = fmt.Errorf("short write %d of %d", n, hi-lo)
				return
			}
			if off+op.Len > r.sizeU[op.P] {
				r.sizeU[op.P] = off + op.Len
			}
			// read back through the same handle
			if _, err = f.Seek(0, io.SeekStart); err != nil {
				return
			}
			data, rerr := fsx.ReadAll(f, 64<<20)
			if rerr != nil {
				same = []int{-3}
			} else {
				same = r.tagsOf(data)
			}
		case "Trunc":
			var f filesystem.File
			f, err = fs.OpenFile(r.real(op.P, variant), os.O_RDWR|os.O_TRUNC)
			if err == nil {
				err = f.Close()
				r.sizeU[op.P] = 0
			}
		case "Rename":
			dst := r.real(op.Q, false)
			if r.step%3 == 2 {
				// an existing destination addressed by its 8.3 alias
				if a := r.alias(op.Q); a != "" {
					dst = a
					aliasUsed = true
				}
			}
			err = fs.Rename(r.real(op.P, false), dst)
			if err == nil && aliasUsed {
				// the file now carries the name it was renamed to: the alias spelling
				delete(r.rev, r.names[op.Q])
				r.names[op.Q] = dst
				r.rev[dst] = op.Q
			}
			if err == nil {
				r.sizeU[op.Q] = r.sizeU[op.P]
				delete(r.sizeU, op.P)
				// a renamed DIRECTORY takes its entries along, with the spelling they carry: an entry that was
				// renamed onto its 8.3 alias earlier keeps that spelling under the new directory name
				orig := fatNameSets[r.cfg.Names]
				for k, src := range r.names {
					if !strings.HasPrefix(k, op.P+"/") || src == orig[k] {
						continue
					}
					dk := op.Q + k[len(op.P):]
					if _, ok := r.names[dk]; !ok {
						continue
					}
					moved := r.names[op.Q] + src[strings.LastIndex(src, "/"):]
					delete(r.rev, r.names[dk])
					r.names[dk] = moved
					r.rev[moved] = dk
					delete(r.rev, src)
					r.names[k] = orig[k]
					r.rev[orig[k]] = k
				}
			}
		case "Remove":
			nm := r.real(op.P, variant)
			if r.step%3 == 2 {
				if a := r.alias(op.P); a != "" {
					nm = a
					aliasUsed = true
				}
			}
			err = fs.Remove(nm)
			if err == nil {
				delete(r.sizeU, op.P)
			}
		case "Fill":
			k := 0
			for k < 100000 {
				f, e := fs.OpenFile(r.real(op.P, false), os.O_RDWR|os.O_APPEND)
				if e != nil {
					break
				}
				s := r.sizeU[op.P]
				lo, hi := r.unit(s), r.unit(s+4)
				n, e := f.Write(r.content(op.Tag, lo, hi))
				f.Close()
				if e != nil || int64(n) != hi-lo {
					break
				}
				r.sizeU[op.P] = s + 4
				k++
			}
			op.K = k
			res = "full"
		case "TruncDir":
			// a truncating open aimed at a directory: whatever the answer, nothing changes
			if f, e := fs.OpenFile(r.real(op.P, false), os.O_RDWR|os.O_TRUNC); e == nil {
				f.Close()
			} else {
				err = e
			}
		case "Churn":
			dir := ""
			if op.P == "D" {
				dir = r.names["D"] + "/"
			}
			var made []string
			for i := 0; i < op.K; i++ {
				nm := fmt.Sprintf("%sTMP%05d.TMP", dir, i)
				f, e := fs.OpenFile(nm, os.O_CREATE|os.O_RDWR)
				if e != nil {
					break
				}
				f.Close()
				made = append(made, nm)
			}
			if op.Q == "trunc" && dir != "" {
				// a truncating open aimed at the (now multi-cluster) directory itself: accepted or refused, it
				// must not touch the directory - every entry made above is still there
				if f, e := fs.OpenFile(strings.TrimSuffix(dir, "/"), os.O_RDWR|os.O_TRUNC); e == nil {
					f.Close()
				}
				for _, nm := range made {
					f, e := fs.OpenFile(nm, os.O_RDONLY)
					if e != nil {
						err = fmt.Errorf("after a truncating open of the directory, %s (one of %d entries) is gone: %v", nm, len(made), e)
						break
					}
					f.Close()
				}
			}
			for _, nm := range made {
				if e := fs.Remove(nm); e != nil && err == nil {
					err = fmt.Errorf("cannot remove temporary %s: %v", nm, e)
				}
			}
			op.Len = len(made)
		default:
			err = fmt.Errorf("unknown op %s", op.A)
		}
	})
	if err != nil && res == "ok" {
		res = "err"
	}
	if panicked != "" {
		res = "panic"
	}
	ev := r.event(op, res, panicked, same)
	ev["alias"] = aliasUsed
	if err != nil {
		ev["errtext"] = err.Error()
	}
	// the next append is placed at the end the volume reports (a refused call may have changed
	// its own target), not where this driver believes it to be
	if api, ok := ev["api"].(map[string]any); ok {
		for p, n := range api {
			if m, ok := n.(map[string]any); ok && m["kind"] == "file" {
				if d, ok := m["data"].([]int); ok && (len(d) == 0 || d[0] != -2) {
					r.sizeU[p] = len(d)
				}
			}
			// the alias spelling a path took on in a rename lasts as long as that file: once the path is
			// empty again it is spelled as in the name set (otherwise two paths of the universe could come
			// to name the same entry - one by its long name, the other by an alias string that is free again)
			if m, ok := n.(map[string]any); ok && m["kind"] == "none" {
				if orig := fatNameSets[r.cfg.Names][p]; orig != "" && r.names[p] != orig {
					delete(r.rev, r.names[p])
					r.names[p] = orig
					r.rev[orig] = p
				}
			}
		}
	}
	return ev
}

// fatExec runs one behaviour on a fresh volume; returns its events (first = Reset).
func fatExec(cfg fatCfg, ops []fatOp, sha, raw bool) ([]map[string]any, error) {
	r, ev0, err := newFatRun(cfg, sha, raw)
	if err != nil {
		return nil, err
	}
	evs := []map[string]any{ev0}
	for _, op := range ops {
		evs = append(evs, r.do(op))
	}
	for _, f := range r.kept {
		f.Close()
	}
	return evs, nil
}

func parseFatBehs(lines []string) ([][]fatOp, error) {
	seen := map[string]bool{}
	var out [][]fatOp
	for _, l := range lines {
		if seen[l] {
			continue
		}
		seen[l] = true
		var ops []fatOp
		if err := json.Unmarshal([]byte(l), &ops); err != nil {
			return nil, fmt.Errorf("bad behaviour %q: %v", l, err)
		}
		out = append(out, ops)
	}
	sort.Slice(out, func(i, j int) bool { return fmt.Sprint(out[i]) < fmt.Sprint(out[j]) })
	return out, nil
}

// scripted fill / empty / refill cycles: released space must be reusable without limit
func fatFillCycles(n int) []fatOp {
	ops := []fatOp{{A: "Mkdir", P: "D"}, {A: "Create", P: "D/A"}}
	tag := 1
	for i := 0; i < n; i++ {
		ops = append(ops, fatOp{A: "Fill", P: "D/A", Tag: tag})
		tag++
		ops = append(ops, fatOp{A: "Remove", P: "D/A"}, fatOp{A: "Create", P: "D/b"}, fatOp{A: "Fill", P: "D/b", Tag: tag})
		tag++
		ops = append(ops, fatOp{A: "Trunc", P: "D/b"}, fatOp{A: "Create", P: "A"}, fatOp{A: "Fill", P: "A", Tag: tag})
		tag++
		ops = append(ops, fatOp{A: "Rename", P: "D/b", Q: "D/A"}, fatOp{A: "Create", P: "L1"}, fatOp{A: "Rename", P: "A", Q: "L1"}, fatOp{A: "Remove", P: "L1"})
	}
	ops = append(ops, fatOp{A: "Churn", P: "", K: 600}, fatOp{A: "Churn", P: "D", K: 40}, fatOp{A: "Fill", P: "D/A", Tag: tag})
	return ops
}

// fatHeldScript: write handles kept open while the same file grows through another handle, siblings are
// created / renamed / removed, and the directory itself grows
func fatHeldScript() []fatOp {
	return []fatOp{
		{A: "Create", P: "A"}, {A: "Append", P: "A", Len: 5, Tag: 1}, {A: "Hold", P: "A"}, {A: "Append", P: "A", Len: 5, Tag: 2}, {A: "WriteAt", P: "A", Off: 0, Len: 1, Tag: 3, Held: true},
		{A: "Hold", P: "A"}, {A: "Create", P: "b"}, {A: "Append", P: "b", Len: 4, Tag: 4}, {A: "Append", P: "A", Len: 1, Tag: 5}, {A: "Append", P: "A", Len: 4, Tag: 6, Held: true},
		{A: "Mkdir", P: "D"}, {A: "Create", P: "D/A"}, {A: "Hold", P: "D/A"}, {A: "Create", P: "D/b"}, {A: "Append", P: "D/b", Len: 5, Tag: 7}, {A: "Churn", P: "D", K: 20}, {A: "Append", P: "D/A", Len: 5, Tag: 9, Held: true},
		{A: "Hold", P: "b"}, {A: "Remove", P: "A"}, {A: "Create", P: "L1"}, {A: "Rename", P: "L1", Q: "L2"}, {A: "WriteAt", P: "b", Off: 9, Len: 3, Tag: 8, Held: true}, {A: "Trunc", P: "b"},
		// the directory grown to several clusters, then a truncating open aimed at the directory itself
		{A: "Churn", P: "D", K: 300, Q: "trunc"},
	}
}

// fatFullScript: calls that need a free cluster or a directory slot made on a volume that has just been
// filled until a write was refused - each may be refused, none may damage anything - then space is
// released piecewise and used again
func fatFullScript() []fatOp {
	return []fatOp{
		{A: "Create", P: "L1"}, {A: "Fill", P: "L1", Tag: 1}, {A: "Mkdir", P: "D"}, {A: "Create", P: "A"}, {A: "Append", P: "A", Len: 5, Tag: 2}, {A: "Churn", P: "", K: 40},
		{A: "Create", P: "L2"}, {A: "Rename", P: "L1", Q: "L2"}, {A: "Hold", P: "L2"}, {A: "Create", P: "b"}, {A: "Append", P: "L2", Len: 1, Tag: 3, Held: true},
		{A: "Trunc", P: "L2"}, {A: "Mkdir", P: "D"}, {A: "Create", P: "D/A"}, {A: "Fill", P: "D/A", Tag: 4}, {A: "Mkdir", P: "E"}, {A: "Rename", P: "D", Q: "E"}, {A: "Create", P: "b"},
		{A: "Remove", P: "D/A"}, {A: "Remove", P: "E/A"}, {A: "Fill", P: "L2", Tag: 5}, {A: "Remove", P: "L2"}, {A: "Churn", P: "", K: 40}, {A: "Create", P: "A"}, {A: "Fill", P: "A", Tag: 6},
	}
}

func fatTraceBytes(behs [][]map[string]any) ([]byte, []int) {
	var buf bytes.Buffer
	var first []int
	line := 0
	for _, evs := range behs {
		first = append(first, line+1)
		for _, ev := range evs {
			js, _ := json.Marshal(ev)
			js = bytes.ReplaceAll(js, []byte(":null"), []byte(":[]")) // TLC's Json module has no null
			buf.Write(js)
			buf.WriteByte('\n')
			line++
		}
	}
	return buf.Bytes(), first
}

func shaHex(b []byte) string { h := sha256.Sum256(b); return hex.EncodeToString(h[:8]) }

var _ = strings.ToLower

// toRanges encodes a set of cluster numbers as sorted, merged [lo,hi] ranges (the C08
// predicates only use chains as sets plus their length).
func toRanges(xs []int) [][2]int {
	ys := append([]int(nil), xs...)
	sort.Ints(ys)
	out := [][2]int{}
	for _, x := range ys {
		if n := len(out); n > 0 && (x == out[n-1][1]+1 || x == out[n-1][1]) {
			out[n-1][1] = x
			continue
		}
		out = append(out, [2]int{x, x})
	}
	return out
}
