package props

import (
	"bytes"
	"encoding/json"
	"fmt"
	"sort"
	"time"

	"verif/harness/internal/core"
	"verif/harness/internal/tlc"
)

// tupleSpace is the common shape of the input/configuration-quantified checks: TLC
// enumerates the tuples of a *_Gen module, exec runs each tuple on the real code and
// returns one event, a *_Trace module judges the events (MISMATCH lines), sig names the
// failure class of a rejected event.
type tupleSpace struct {
	GenModule   string
	GenCfg      string // cfg text
	TraceModule string
	TraceCfg    string // cfg file name in spec/
	Exec        func(t map[string]any, i int) map[string]any
	ExecAll     func(ts []map[string]any) []map[string]any // alternative to Exec (batching, child processes)
	Sig         func(t map[string]any, ev map[string]any, detail string) (sigs []string, msg string)
	NonTrivial  func(t map[string]any, ev map[string]any) bool
	SampleEvery int
	FailFn      func(c *core.Ctx, t, ev map[string]any, detail string) // replaces Sig + c.Fail for a rejected event
	Keep        func(ev map[string]any) bool // events that are not kept (tuple not applicable: setup impossible) are left out of the trace
	Extra       map[string][]byte
}

func (ts tupleSpace) run(c *core.Ctx) (tuples, events []map[string]any) {
	gen, err := tlc.Run(tlc.Opts{Module: ts.GenModule, Config: "gen.cfg", Workers: 1, Files: map[string][]byte{"gen.cfg": []byte(ts.GenCfg)}, Timeout: 20 * time.Minute})
	if err != nil || !gen.OK {
		c.Broken("%s: %v", ts.GenModule, err)
		return
	}
	c.States, c.Transitions = gen.Distinct, gen.Generated
	c.Exhaustive = true
	seen := map[string]bool{}
	for _, l := range gen.Beh {
		if seen[l] {
			continue
		}
		seen[l] = true
		var t map[string]any
		if json.Unmarshal([]byte(l), &t) != nil {
			c.Broken("bad tuple %s", l)
			return
		}
		tuples = append(tuples, t)
	}
	sort.Slice(tuples, func(i, j int) bool { a, _ := json.Marshal(tuples[i]); b, _ := json.Marshal(tuples[j]); return string(a) < string(b) })
	if ts.ExecAll != nil {
		events = ts.ExecAll(tuples)
	} else {
		events = make([]map[string]any, len(tuples))
		parallel(len(tuples), func(i int) { events[i] = ts.Exec(tuples[i], i) })
	}
	if len(events) != len(tuples) {
		c.Broken("executed %d of %d tuples", len(events), len(tuples))
		return
	}
	if ts.Keep != nil {
		kt, ke := tuples[:0:0], events[:0:0]
		for i, ev := range events {
			if ts.Keep(ev) {
				kt, ke = append(kt, tuples[i]), append(ke, ev)
			}
		}
		tuples, events = kt, ke
	}
	var trace bytes.Buffer
	every := ts.SampleEvery
	if every == 0 {
		every = len(tuples)/5 + 1
	}
	for i, ev := range events {
		ev["shape"] = tuples[i]
		js, _ := json.Marshal(ev)
		js = bytes.ReplaceAll(js, []byte(":null"), []byte(":[]")) // TLC's Json module has no null
		trace.Write(js)
		trace.WriteByte('\n')
		c.AddEval(1)
		if ts.NonTrivial == nil || ts.NonTrivial(tuples[i], ev) {
			js, _ := json.Marshal(tuples[i])
			c.Distinct(string(js))
		}
		if i%every == every/2 {
			c.Sample(ev)
		}
	}
	tv, err := tlc.ValidateTrace(ts.TraceModule, ts.TraceCfg, trace.Bytes(), ts.Extra, 30*time.Minute, false)
	if err != nil {
		c.Broken("%s: %v", ts.TraceModule, err)
		return
	}
	for k, idx := range tv.Mismatches {
		if ts.FailFn != nil {
			ts.FailFn(c, tuples[idx-1], events[idx-1], tv.Details[k])
			continue
		}
		sigs, msg := ts.Sig(tuples[idx-1], events[idx-1], tv.Details[k])
		c.Fail(sigs, msg, map[string]any{"tuple": tuples[idx-1], "event": events[idx-1]})
	}
	c.TracesValidated = int64(len(events) - len(tv.Mismatches))
	c.Extra["tuples"] = len(tuples)
	if len(tuples) == 0 {
		c.Broken("%s produced no tuples", ts.GenModule)
	}
	return
}

func js(v any) string {
	b, _ := json.Marshal(v)
	return string(b)
}

func str(m map[string]any, k string) string { return fmt.Sprint(m[k]) }
