package props

import (
	"fmt"
	"strings"
	"time"

	"verif/harness/internal/core"
	"verif/harness/internal/tlc"
)

// C08 — FAT volumes stay structurally sound on disk (FatDisk.tla): the cluster-level model
// is checked exhaustively (soundness invariants + refinement of the plain tree), and the
// raw projection of real volumes, taken by the independent parser after Create and after
// every call (accepted or refused) of the C01 behaviours, is judged by FatDisk_Trace.
func C08(c *core.Ctx) {
	c.Rule = "behaviour = (volume configuration, call sequence) as in C01 (TLC BFS depth D, -simulate walks incl. Fill, fill/empty/refill cycles with directory churn) on FAT12/16/32 volumes of several sizes, starts and name sets; after EVERY call the raw bytes are parsed independently and P_C08 (boot, FAT copies, chains, cross-links, leaks, out-of-range marks) is evaluated; non-trivial = every behaviour (distinct key = config|sequence)"
	c.Assumptions = []string{"independent FAT parser harness/internal/rawfat (BPB, both FATs, FSInfo, backup boot sector, LFN checksums, chains)", "FAT type decided by structure (FATSz16 = 0 => FAT32) because the library creates FAT32 volumes below the canonical cluster-count threshold"}
	maxTag := 2
	if c.Tier == "thorough" {
		maxTag = 3
	}
	cfg := fmt.Sprintf("SPECIFICATION Spec\nCONSTANTS\n  NC = 4\n  CU = 2\n  MaxLen = 5\n  MaxTag = %d\n  Files = {\"A\", \"D/A\"}\n  Dirs = {\"D\"}\n  InD = {\"D/A\"}\nINVARIANTS Sound Accounting\nPROPERTY Refines\nCHECK_DEADLOCK FALSE\n", maxTag)
	mc, err := tlc.Run(tlc.Opts{Module: "FatDisk_MC", Config: "mc.cfg", Workers: 8, Files: map[string][]byte{"mc.cfg": []byte(cfg)}, Timeout: 20 * time.Minute, HeapMB: 8192})
	if err != nil || !mc.OK {
		c.Broken("FatDisk_MC: %v", err)
		return
	}
	c.States, c.Transitions = mc.Distinct, mc.Generated
	pl, ok := fatGenerate(c)
	if !ok {
		return
	}
	fatRunAll(c, fatJobs(c, pl), "FatDisk_Trace", "FatDisk_Trace.cfg", false, true, func(job fatJob, step int, ev map[string]any, detail string) ([]string, string) {
		clause := "unknown"
		for _, k := range []string{"boot", "copies", "chains", "crosslink", "leak", "beyond", "unparsable"} {
			if strings.Contains(detail, `"`+k+`"`) {
				clause = k
			}
		}
		a := str(ev, "a")
		sig := fmt.Sprintf("fat-%s-after-%s", clause, strings.ToLower(a))
		if a == "Reset" {
			sig = fmt.Sprintf("%s-%s-after-create", job.cfg.Kind, clause)
		}
		raw, _ := ev["raw"].(map[string]any)
		brief := map[string]any{}
		for _, k := range []string{"type", "ncl", "used", "beyond", "rootchain", "rootbad", "bootok", "fitsrange", "backupeq", "fsinfook", "fsinfofreeok", "fatseq", "kindok", "problems", "err"} {
			brief[k] = raw[k]
		}
		return []string{sig}, fmt.Sprintf("%s %d bytes at %d names=%s [%s]: after step %d %s(p=%v q=%v) -> %v the raw volume violates P_C08 clause %q: %s ents=%s",
			job.cfg.Kind, job.cfg.Size, job.cfg.Start, job.cfg.Names, job.label, step, a, ev["p"], ev["q"], ev["res"], clause, trunc(brief), trunc(raw["ents"]))
	})
}
