package props

import (
	"fmt"
	"sort"
	"strings"
	"time"

	"verif/harness/internal/core"
	"verif/harness/internal/tlc"
)

// C04 / C19(ext4) / C05 — ext4 volumes behave like a plain tree with attributes
// (ExtTree.tla) and stay clean for e2fsck after every call.

const extUniverse = "  CU = 4\n  Files = {\"a\", \"b\", \"d/a\"}\n  Dirs = {\"d\"}\n  Links = {\"l\", \"d/l\"}\n  InD = {\"d/a\", \"d/l\"}\n"

func extGenCfg(d int, neg, attr bool) []byte { return extGenCfgT(d, neg, attr, false) }

func extGenCfgT(d int, neg, attr, trunc bool) []byte {
	b := func(x bool) string {
		if x {
			return "TRUE"
		}
		return "FALSE"
	}
	return []byte(fmt.Sprintf("SPECIFICATION Spec\nCONSTANTS\n%s  MaxLen = 9\n  D = %d\n  Neg = %s\n  WithAttr = %s\n  WithTrunc = %s\nINVARIANT Emit\nVIEW View\nCHECK_DEADLOCK FALSE\n", extUniverse, d, b(neg), b(attr), b(trunc)))
}

type extJob struct {
	cfg   extCfg
	ops   []extOp
	label string
}

func extScripted() [][]extOp {
	// many non-adjacent extents in two files (extent tree deeper than the inode's 4 slots),
	// overwrites across extent boundaries, directory growth, long and short symlinks
	var a []extOp
	a = append(a, extOp{A: "Mkdir", P: "d"}, extOp{A: "Create", P: "a"}, extOp{A: "Create", P: "b"})
	tag := 1
	for i := 0; i < 12; i++ {
		a = append(a, extOp{A: "Append", P: "a", Len: 4, Tag: tag}, extOp{A: "Append", P: "b", Len: 5, Tag: tag + 1})
		tag += 2
	}
	a = append(a, extOp{A: "WriteAt", P: "a", Off: 6, Len: 9, Tag: tag}, extOp{A: "WriteAt", P: "b", Off: 19, Len: 3, Tag: tag + 1}, extOp{A: "WriteAt", P: "a", Off: 50, Len: 2, Tag: tag + 2},
		extOp{A: "Churn", P: "d", K: 60}, extOp{A: "Churn2", P: "d", K: 24}, extOp{A: "Symlink", P: "l", T: "t59"}, extOp{A: "Symlink", P: "d/l", T: "t4095"}, extOp{A: "BigFile", K: 300},
		extOp{A: "Chmod", P: "a", V: "4711"}, extOp{A: "Chown", P: "d", V: "65536", W: "4294967295"}, extOp{A: "Chtimes", P: "b", V: "2147483648", W: "86399"},
		extOp{A: "Remove", P: "a"}, extOp{A: "Remove", P: "l"}, extOp{A: "Churn", P: "", K: 40}, extOp{A: "Remove", P: "d/l"}, extOp{A: "Remove", P: "d"}, extOp{A: "Remove", P: "b"}, extOp{A: "BigFile", K: 40})
	b := []extOp{{A: "Create", P: "a"}, {A: "WriteAt", P: "a", Off: 9, Len: 1, Tag: 1}, {A: "Symlink", P: "l", T: "t60"}, {A: "Symlink", P: "l", T: "t1"}, {A: "Mkdir", P: "d"}, {A: "Churn2", P: "d", K: 24}, {A: "Symlink", P: "d/l", T: "t61"},
		{A: "Create", P: "d/a"}, {A: "Append", P: "d/a", Len: 5, Tag: 2}, {A: "Remove", P: "d"}, {A: "Remove", P: "d/l"}, {A: "Remove", P: "d/a"}, {A: "Remove", P: "d"}, {A: "Mkdir", P: "d"}, {A: "Symlink", P: "d/l", T: "abs"}, {A: "BigFile", K: 5}}
	// a directory that grows across a block group boundary (twice: on the fresh volume and after some traffic)
	cc := []extOp{{A: "Mkdir", P: "d"}, {A: "Straddle"}, {A: "Create", P: "a"}, {A: "Append", P: "a", Len: 5, Tag: 1}, {A: "Create", P: "d/a"}, {A: "Append", P: "d/a", Len: 9, Tag: 2},
		{A: "Straddle"}, {A: "GroupEdge"}, {A: "Remove", P: "a"}, {A: "Churn", P: "d", K: 30}, {A: "Straddle"}, {A: "Remove", P: "d/a"}, {A: "Remove", P: "d"}, {A: "GroupEdge"}, {A: "BigFile", K: 20}}
	// Truncate (ext4.FileSystem.Truncate): shrink, regrow by appending, to zero, extend past the end
	dd := []extOp{{A: "Create", P: "a"}, {A: "Append", P: "a", Len: 9, Tag: 1}, {A: "Truncate", P: "a", Off: 5}, {A: "Append", P: "a", Len: 3, Tag: 2}, {A: "Truncate", P: "a", Off: 0},
		{A: "Append", P: "a", Len: 5, Tag: 3}, {A: "Truncate", P: "a", Off: 12}, {A: "WriteAt", P: "a", Off: 7, Len: 3, Tag: 4}, {A: "Create", P: "b"}, {A: "Append", P: "b", Len: 4, Tag: 5},
		{A: "Truncate", P: "a", Off: 1}, {A: "Append", P: "b", Len: 9, Tag: 6}, {A: "Remove", P: "a"}, {A: "BigFile", K: 30}, {A: "Remove", P: "b"},
		// Truncate aimed at a fast symlink, a directory and a symlink whose target lives in a block: nothing may change
		{A: "Symlink", P: "l", T: "t1"}, {A: "Truncate", P: "l", Off: 0}, {A: "Mkdir", P: "d"}, {A: "Truncate", P: "d", Off: 0}, {A: "Symlink", P: "d/l", T: "t255"},
		{A: "Truncate", P: "d/l", Off: 1}, {A: "Remove", P: "d/l"}, {A: "Remove", P: "d"}, {A: "Remove", P: "l"}}
	// a file whose extent tree gets index blocks and a second level; a volume filled until writes are refused
	ee := []extOp{{A: "Create", P: "a"}, {A: "Append", P: "a", Len: 5, Tag: 1}, {A: "ManyExtents", K: 260}, {A: "Mkdir", P: "d"}, {A: "Create", P: "d/a"}, {A: "Append", P: "d/a", Len: 4, Tag: 2},
		{A: "Full"}, {A: "Remove", P: "d/a"}, {A: "Append", P: "a", Len: 4, Tag: 3}, {A: "Remove", P: "d"}, {A: "Remove", P: "a"}}
	return [][]extOp{a, b, cc, dd, ee}
}

// withTrunc: include ext4.FileSystem.Truncate (walks and a scripted behaviour).  Truncate is not among the
// calls C04 lists (and what follows a Truncate is then outside C04's statement too), so only C05 - whose
// statement covers every operation on the volume - asks for it.
func extGenerate(c *core.Ctx, depth int, attr bool, walks, walkDepth int, withTrunc bool) ([][]extOp, []string, bool) {
	var behs [][]extOp
	var labels []string
	gen, err := tlc.Run(tlc.Opts{Module: "ExtTree_Gen", Config: "gen.cfg", Workers: 1, Files: map[string][]byte{"gen.cfg": extGenCfg(depth, true, attr)}, Timeout: 20 * time.Minute})
	if err != nil || !gen.OK {
		c.Broken("ExtTree_Gen BFS: %v", err)
		return nil, nil, false
	}
	c.States, c.Transitions = gen.Distinct, gen.Generated
	b, err := parseExtBehs(gen.Beh)
	if err != nil {
		c.Broken("%v", err)
		return nil, nil, false
	}
	for _, x := range b {
		behs = append(behs, x)
		labels = append(labels, fmt.Sprintf("bfs-depth-%d", depth))
	}
	c.Extra["generated_bfs_behaviours"] = len(b)
	sim, err := tlc.Run(tlc.Opts{Module: "ExtTree_Gen", Config: "gen.cfg", Workers: 1, Simulate: fmt.Sprintf("num=%d", walks), Depth: walkDepth + 2, Seed: c.Seed,
		Files: map[string][]byte{"gen.cfg": extGenCfgT(walkDepth, true, true, withTrunc)}, Timeout: 10 * time.Minute})
	if err != nil {
		c.Broken("ExtTree_Gen simulate: %v", err)
		return nil, nil, false
	}
	w, err := parseExtBehs(sim.Beh)
	if err != nil {
		c.Broken("%v", err)
		return nil, nil, false
	}
	for _, x := range w {
		behs = append(behs, x)
		labels = append(labels, "walk")
	}
	c.Extra["generated_walks"] = len(w)
	for _, x := range extScripted() {
		hasTrunc := false
		for _, o := range x {
			if o.A == "Truncate" {
				hasTrunc = true
			}
		}
		if hasTrunc && !withTrunc {
			continue
		}
		behs = append(behs, x)
		labels = append(labels, "scripted")
	}
	return behs, labels, true
}

// extRunAll executes jobs, validates with ExtTree_Trace and, when fsck is on, checks the
// e2fsck verdict of every event (C05).
func extRunAll(c *core.Ctx, jobs []extJob, module, cfgFile string, sig func(job extJob, step int, ev map[string]any, detail string) ([]string, string)) {
	// batches, see fatRunAll
	const batch = 3000
	accepted := map[string]int{}
	executed, rejected := 0, 0
	for lo := 0; lo < len(jobs); lo += batch {
		hi := lo + batch
		if hi > len(jobs) {
			hi = len(jobs)
		}
		e, r, ok := extRunBatch(c, jobs[lo:hi], lo, len(jobs), module, cfgFile, sig, accepted)
		executed += e
		rejected += r
		if !ok {
			return
		}
	}
	c.Extra["accepted_calls_per_action"] = accepted
	for _, a := range []string{"Mkdir", "Create", "WriteAt", "Append", "Symlink", "Remove", "Hold", "HeldWrite"} {
		if accepted[a] == 0 {
			c.Broken("vacuous: no %s call was accepted by the real filesystem", a)
		}
	}
	c.TracesValidated = int64(executed - rejected)
	c.Extra["behaviours_executed"] = executed
	c.Extra["behaviours_rejected"] = rejected
}

func extRunBatch(c *core.Ctx, jobs []extJob, base, total int, module, cfgFile string, sig func(job extJob, step int, ev map[string]any, detail string) ([]string, string), accepted map[string]int) (executed, rejected int, ok bool) {
	behs := make([][]map[string]any, len(jobs))
	errs := make([]error, len(jobs))
	parallel(len(jobs), func(i int) { behs[i], errs[i] = extExec(jobs[i].cfg, jobs[i].ops) })
	var good [][]map[string]any
	var goodJobs []extJob
	for i := range jobs {
		if errs[i] != nil {
			c.Broken("cannot create %+v: %v", jobs[i].cfg, errs[i])
			continue
		}
		good = append(good, behs[i])
		goodJobs = append(goodJobs, jobs[i])
		for _, ev := range behs[i][1:] {
			c.AddEval(1)
			if ev["res"] == "ok" {
				accepted[str(ev, "a")]++
				if ev["held"] == true {
					accepted["HeldWrite"]++
				}
			}
		}
		c.Distinct(fmt.Sprintf("%+v|%v", jobs[i].cfg, jobs[i].ops))
		if (base+i)%(total/4+1) == 1 {
			c.Sample(map[string]any{"cfg": jobs[i].cfg, "label": jobs[i].label, "ops": jobs[i].ops, "results": resultsOf(behs[i])})
		}
	}
	trace, first := fatTraceBytes(good)
	tv, err := tlc.ValidateTrace(module, cfgFile, trace, nil, 40*time.Minute, false)
	if err != nil {
		c.Broken("%s: %v", module, err)
		return len(good), 0, false
	}
	if tv.InvViolated != "" {
		c.Broken("%s invariant on matched steps: %s", module, tv.InvViolated)
		return len(good), 0, false
	}
	bad := map[int]bool{}
	for k, idx := range tv.Mismatches {
		bi := sort.SearchInts(first, idx+1) - 1
		if bi < 0 {
			continue
		}
		bad[bi] = true
		step := idx - first[bi]
		ev := good[bi][step]
		sigs, msg := sig(goodJobs[bi], step, ev, tv.Details[k])
		ops := goodJobs[bi].ops
		if step < len(ops) {
			ops = ops[:step]
		}
		c.Fail(sigs, msg, map[string]any{"cfg": goodJobs[bi].cfg, "label": goodJobs[bi].label, "ops_up_to_failure": ops, "results_up_to_failure": resultsOf(good[bi][:step+1]), "failing_step": step, "event": ev, "previous_event": prevEv(good[bi], step)})
	}
	return len(good), len(bad), true
}

func c04Sig(job extJob, step int, ev map[string]any, detail string) ([]string, string) {
	a, res := str(ev, "a"), str(ev, "res")
	sig := fmt.Sprintf("ext4-%s-%s", strings.ToLower(a), res)
	extra, _ := ev["extra"].([]string)
	switch {
	case res == "panic":
		sig = "ext4-panic-" + strings.ToLower(a)
	case len(extra) > 0 && strings.Contains(strings.Join(extra, " "), "read "):
		sig = "ext4-read-of-own-file-fails-after-" + strings.ToLower(a)
	case len(extra) > 0:
		sig = "ext4-unexpected-entries-after-" + strings.ToLower(a)
	case js(ev["api"]) != js(ev["api2"]):
		sig = "ext4-live-differs-from-reopened-after-" + strings.ToLower(a)
	case js(ev["attrs"]) != js(ev["attrs2"]):
		sig = "ext4-attrs-live-differ-from-reopened-after-" + strings.ToLower(a)
	case a == "Chmod" || a == "Chown" || a == "Chtimes":
		sig = "ext4-" + strings.ToLower(a) + "-value-or-frame"
	case a == "BigFile":
		sig = "ext4-bigfile-content"
	}
	msg := fmt.Sprintf("ext4 %+v [%s]: step %d %s(p=%v off=%v len=%v tag=%v t=%v v=%v w=%v) -> %s: state after the call is explained neither by the accept nor by the refuse branch of ExtTree; api=%s attrs=%s extra=%v same=%v err=%v panic=%v",
		job.cfg, job.label, step, a, ev["p"], ev["off"], ev["len"], ev["tag"], ev["t"], ev["v"], ev["w"], res, trunc(ev["api"]), trunc(ev["attrs"]), ev["extra"], ev["same"], ev["errtext"], ev["panic"])
	return []string{sig}, msg
}

func extConfigs(tier string) []extCfg {
	const MiB = 1 << 20
	cfgs := []extCfg{
		{Size: 20 * MiB, Start: 0, Journal: true},
		{Size: 16 * MiB, Start: MiB, SPB: 8, Journal: false, Checksum: true, Extra: "noresize"},
		{Size: 12 * MiB, Start: 4096, SPB: 2, Journal: false, Checksum: true},
		// many block groups (256 blocks each) with 4 KiB and 1 KiB blocks: the scripted behaviours with the
		// macros that work at group boundaries (Straddle, GroupEdge, BigFile across groups)
		{Size: 16 * MiB, Start: 512, SPB: 8, Journal: false, Extra: "bpg256nr", Only: "scripted"},
		{Size: 4 * MiB, Start: 0, SPB: 2, Journal: false, Extra: "bpg256nr", Only: "scripted"},
	}
	if tier == "thorough" {
		cfgs = append(cfgs, extCfg{Size: 24 * MiB, Start: 512, SPB: 2, Journal: false}, extCfg{Size: 64 * MiB, Start: 5 << 30, SPB: 8, Journal: true, Checksum: true, Extra: "noresize"}, extCfg{Size: 40 * MiB, Start: 0, SPB: 4, Journal: true, Checksum: true, Extra: "noresize"})
	}
	return cfgs
}

func C04(c *core.Ctx) {
	c.Rule = "behaviour = (Create parameters, call sequence): every sequence of depth D over the alphabet of ExtTree_Gen (Mkdir, Create, WriteAt x offsets {0,1,sector,block-1,block,block+1,EOF,EOF+1} x lengths, Append, Symlink x target length classes {1,59,60,61,255,4095,absolute}, Remove, Chmod/Chown/Chtimes, calls the tree cannot do) generated by TLC (BFS) + -simulate walks + scripted behaviours (24 alternating appends -> many extents, directory churn past one block, multi-block files written in pieces, macros at block-group boundaries, 260-extent files, a volume filled until writes are refused); write handles kept open across other calls (Hold), incl. attribute setters on the held file; configurations: 1 KiB and 4 KiB blocks, with/without journal and metadata checksums, start 0 / 1 MiB / > 4 GiB; non-trivial = every behaviour (distinct key = config|sequence)"
	c.Assumptions = []string{"ExtTree accept/refuse semantics: refusals are legal; reading a file the library wrote must not fail (read errors are rejected)", "attribute tokens are decimal strings compared by TLC"}
	depth, walks, wd := 2, 25, 25
	if c.Tier == "thorough" {
		depth, walks, wd = 3, 200, 40
	}
	behs, labels, ok := extGenerate(c, depth, c.Tier != "thorough", walks, wd, false)
	if !ok {
		return
	}
	var jobs []extJob
	for ci, cfg := range extConfigs(c.Tier) {
		for bi, ops := range behs {
			if c.Tier == "thorough" && labels[bi] != "scripted" && (bi+ci)%3 != 0 && ci > 0 {
				continue
			}
			if cfg.Only != "" && labels[bi] != cfg.Only {
				continue
			}
			jobs = append(jobs, extJob{cfg, ops, labels[bi]})
		}
	}
	// budget of the thorough tier (see fatJobs): the depth-3 enumeration is sampled evenly, the rest is kept
	const budget = 60000
	if len(jobs) > budget {
		var rest, deep []extJob
		for _, j := range jobs {
			if j.label == "bfs-depth-3" || j.label == "walk" {
				deep = append(deep, j)
			} else {
				rest = append(rest, j)
			}
		}
		room := budget - len(rest)
		if room < 1 {
			room = 1
		}
		stride := (len(deep) + room - 1) / room
		off := int(c.Seed % int64(stride))
		for i, j := range deep {
			if i%stride == off {
				rest = append(rest, j)
			}
		}
		c.Extra["bfs_depth3_and_walks_sampled_1_in"] = stride
		c.Extra["bfs_depth3_and_walk_jobs_generated"] = len(deep)
		jobs = rest
	}
	extRunAll(c, jobs, "ExtTree_Trace", "ExtTree_Trace.cfg", c04Sig)
}
