package props

import (
	"bytes"
	"encoding/json"
	"fmt"
	"os"
	"path"
	"strings"
	"time"

	"github.com/diskfs/go-diskfs/backend/file"
	"github.com/diskfs/go-diskfs/filesystem"
	"github.com/diskfs/go-diskfs/filesystem/iso9660"
	"github.com/diskfs/go-diskfs/filesystem/squashfs"

	"verif/harness/internal/core"
	"verif/harness/internal/fsx"
	"verif/harness/internal/memdev"
	"verif/harness/internal/rawiso"
	"verif/harness/internal/tlc"
)

// C03 — nothing is written outside the byte range a component was given (Range.tla).

var c03Starts = map[string]int64{"s0": 0, "ssec": 512, "s1m": 1 << 20, "s5g": 5<<30 + 512}

// sizes per kind and class; "odd" is not a multiple of the cluster / block / sector
var c03Sizes = map[string]map[string]int64{
	"fat12":    {"small": 64 * 1024, "odd": 1474560 + 512*3, "mid": 1 << 20},
	"fat16":    {"small": 5 << 20, "odd": 5<<20 + 512*5, "mid": 9 << 20},
	"fat32":    {"small": 34 << 20, "odd": 34<<20 + 512*3, "mid": 40 << 20},
	"ext4":     {"small": 6 << 20, "odd": 12<<20 + 512*3, "mid": 20 << 20},
	"iso":      {"small": 2 << 20, "odd": 3<<20 + 512*3, "mid": 8 << 20},
	"squashfs": {"small": 1 << 20, "odd": 3<<20 + 512*3, "mid": 8 << 20},
}

func c03Guards(d *memdev.Dev, lo, hi int64) (int64, string) {
	var n int64
	first := ""
	for _, r := range d.DiffOutside(lo, hi) {
		n += r.Len
		if first == "" {
			first = fmt.Sprintf("%d+%d", r.Off, r.Len)
		}
	}
	return n, first
}

func c03Exec(t map[string]any, idx int) map[string]any {
	kind, work := str(t, "kind"), str(t, "work")
	start, size := c03Starts[str(t, "start")], c03Sizes[kind][str(t, "size")]
	ev := map[string]any{"src": "fs", "t": t, "res": "ok", "outside": 0, "guards": 0, "full": false, "calls": 0, "start": fmt.Sprint(start), "size": fmt.Sprint(size)}
	sector := int64(512)
	if str(t, "start") == "ssec" {
		start = sector
	}
	if kind == "iso" {
		sector = 2048
		if start == 512 {
			start = 2048
		}
		if str(t, "start") == "s5g" {
			start = 5<<30 + 2048
		}
	}
	if kind == "squashfs" {
		sector = 4096
		if start == 512 {
			start = 4096
		}
		if str(t, "start") == "s5g" {
			start = 5<<30 + 4096
		}
	}
	ev["start"] = fmt.Sprint(start)
	d := memdev.NewPattern(start + size + 4<<20)
	d.FailOutside = []memdev.Range{{Off: start, Len: size}}
	calls := 0
	finish := func() map[string]any {
		var out int64
		for _, o := range d.Outside {
			out += o.Len
		}
		ev["outside"] = out
		if len(d.Outside) > 0 {
			ev["first_outside"] = fmt.Sprintf("%d+%d (range is %d+%d)", d.Outside[0].Off, d.Outside[0].Len, start, size)
		}
		g, first := c03Guards(d, start, start+size)
		ev["guards"] = g
		if first != "" {
			ev["first_guard"] = first
		}
		ev["calls"] = calls
		return ev
	}
	if (kind == "iso" || kind == "squashfs") && (work == "exactfit" || work == "exactdirs") {
		// first a roomy build to learn what the image needs, then a range of exactly that size
		entries := []fsx.Entry{{Path: "a.bin", Data: randomBytes(1, int(sector))}, {Path: "dir", Dir: true}, {Path: "dir/b.bin", Data: randomBytes(2, int(3*sector))}, {Path: "zz_last.bin", Data: randomBytes(3, int(2*sector))}}
		if str(t, "size") == "odd" {
			entries = append(entries, fsx.Entry{Path: "zzz_tail.bin", Data: randomBytes(4, int(sector)+1)})
		}
		opt := fsx.Opt{Size: 16 << 20, Sector: sector, IsoOpts: &iso9660.FinalizeOptions{RockRidge: true}, SquashOpts: &squashfs.FinalizeOptions{}}
		if work == "exactdirs" {
			// many directories with long names: path tables (Joliet's take 8+2n bytes per record where the
			// primary ones take 8+n) and directory tables cross block boundaries
			for i := 0; i < 70; i++ {
				dn := fmt.Sprintf("directory-number-%03d", i)
				entries = append(entries, fsx.Entry{Path: dn, Dir: true})
				if i%9 == 0 {
					entries = append(entries, fsx.Entry{Path: dn + "/f.bin", Data: randomBytes(int64(100+i), 100+i)})
				}
			}
			opt.IsoOpts = &iso9660.FinalizeOptions{RockRidge: true, Joliet: true}
		}
		v0, err := fsx.BuildImage(kind, entries, opt)
		if err != nil {
			ev["res"], ev["detail"] = "setup", "roomy build: "+err.Error()
			return finish()
		}
		var needed int64
		if kind == "iso" {
			iso, err := rawiso.ParseISO(v0.Dev, 0, 16<<20, sector)
			if err != nil {
				ev["res"], ev["detail"] = "setup", "independent parser: "+err.Error()
				return finish()
			}
			needed = int64(iso.VolumeBlocks) * sector
		} else {
			sb, err := rawiso.ParseSquashSB(v0.Dev, 0)
			if err != nil {
				ev["res"], ev["detail"] = "setup", "independent parser: "+err.Error()
				return finish()
			}
			needed = int64(sb.BytesUsed)
		}
		size = needed
		ev["size"] = fmt.Sprint(size)
		d = memdev.NewPattern(start + size + 4<<20)
		d.FailOutside = []memdev.Range{{Off: start, Len: size}}
		opt.Size, opt.Start = size, start
		var berr error
		if pn := fsx.Catch(func() { _, berr = fsx.BuildImageOn(kind, d, entries, opt) }); pn != "" {
			ev["res"], ev["detail"] = "panic", pn
		} else if berr != nil {
			ev["res"], ev["detail"] = "err", berr.Error()
		}
		calls = len(entries) + 1
		ev["full"] = true
		return finish()
	}
	if kind == "iso" || kind == "squashfs" {
		b := file.New(d, false)
		var wfs filesystem.FileSystem
		var ws string
		var err error
		if kind == "iso" {
			var f *iso9660.FileSystem
			f, err = iso9660.Create(b, size, start, sector, "")
			if err == nil {
				wfs, ws = f, f.Workspace()
			}
		} else {
			var f *squashfs.FileSystem
			f, err = squashfs.Create(b, size, start, sector)
			if err == nil {
				wfs, ws = f, f.Workspace()
			}
		}
		if err != nil {
			ev["res"], ev["detail"] = "refused", err.Error()
			return finish()
		}
		defer os.RemoveAll(ws)
		var entries []fsx.Entry
		switch work {
		case "oversize":
			// incompressible content, one and a half times the range
			per := size / 4
			for i := 0; i < 6; i++ {
				entries = append(entries, fsx.Entry{Path: fmt.Sprintf("big%d.bin", i), Data: randomBytes(int64(idx*10+i), int(per))})
			}
		case "dirgrow":
			entries = append(entries, fsx.Entry{Path: "d", Dir: true})
			for i := 0; i < 400; i++ {
				entries = append(entries, fsx.Entry{Path: fmt.Sprintf("d/entry-%04d-%s.dat", i, strings.Repeat("n", i%40)), Data: fsx.Content(i, i%7)})
			}
		default:
			entries = []fsx.Entry{{Path: "a.txt", Data: fsx.Content(1, 700)}, {Path: "dir", Dir: true}, {Path: "dir/b.bin", Data: fsx.Content(2, 30000)}, {Path: "dir/sub", Dir: true}, {Path: "dir/sub/c", Data: fsx.Content(3, 10)}, {Path: "lnk", Link: "a.txt"}}
		}
		if err := fsx.Populate(wfs, entries); err != nil {
			ev["res"], ev["detail"] = "setup", err.Error()
			return finish()
		}
		calls = len(entries)
		var ferr error
		if pn := fsx.Catch(func() {
			switch f := wfs.(type) {
			case *iso9660.FileSystem:
				ferr = f.Finalize(iso9660.FinalizeOptions{RockRidge: true})
			case *squashfs.FileSystem:
				ferr = f.Finalize(squashfs.FinalizeOptions{})
			}
		}); pn != "" {
			ev["res"], ev["detail"] = "panic", pn
		} else if ferr != nil {
			ev["res"], ev["detail"] = "err", ferr.Error()
			ev["full"] = true
		}
		calls++
		return finish()
	}
	// mutable kinds
	v, err := fsx.CreateOn(kind, d, fsx.Opt{Start: start, Size: size, Sector: 512, Label: "C03"})
	if err != nil {
		ev["res"], ev["detail"] = "refused", err.Error()
		return finish()
	}
	fs := v.FS
	write := func(p string, data []byte, flag int) error {
		calls++
		f, err := fs.OpenFile(p, flag)
		if err != nil {
			return err
		}
		defer f.Close()
		n, err := f.Write(data)
		if err != nil {
			return err
		}
		if n != len(data) {
			return fmt.Errorf("short write %d of %d", n, len(data))
		}
		return nil
	}
	if pn := fsx.Catch(func() {
		switch work {
		case "fill":
			chunk := fsx.Content(7, 64*1024)
			if size <= 1<<20 {
				chunk = chunk[:3000]
			}
			fillOnce := func(prefix string) bool {
				for i := 0; i < 4000; i++ {
					name := fmt.Sprintf("%s%04d.bin", prefix, i)
					// each file grows until refusal or 8 chunks, so both "new file" and "extend" hit the limit
					if err := write(name, chunk, os.O_CREATE|os.O_RDWR); err != nil {
						return true
					}
					for k := 0; k < 7; k++ {
						if err := write(name, chunk, os.O_RDWR|os.O_APPEND); err != nil {
							return true
						}
					}
				}
				return false
			}
			full := fillOnce("F")
			// directories until refusal (directory growth at capacity)
			for i := 0; i < 300 && full; i++ {
				calls++
				if err := fs.Mkdir(fmt.Sprintf("dir%03d", i)); err != nil {
					break
				}
			}
			// punch holes all over the volume (every other file), then refill with files of mixed
			// sizes until refusal: the allocator has to use the tail of the last group / cluster range
			// while other space is still free
			for i := 0; i < 4000; i += 2 {
				calls++
				if err := fs.Remove(fmt.Sprintf("F%04d.bin", i)); err != nil && i > 8 {
					break
				}
			}
			sizes := []int{256 * 1024, 100 * 1024, 37 * 1024, 5 * 1024, 1024}
			if size <= 1<<20 {
				sizes = []int{9000, 3000, 1500, 512, 100}
			}
			full2 := false
			misses := 0
			for i := 0; i < 6000 && misses < len(sizes); i++ {
				n := sizes[i%len(sizes)]
				if err := write(fmt.Sprintf("G%04d.bin", i), fsx.Content(i, n), os.O_CREATE|os.O_RDWR); err != nil {
					full2 = true
					misses++ // try the smaller sizes too before giving up
				} else {
					misses = 0
				}
			}
			// and once more with the smallest unit only
			for i := 0; i < 3000; i++ {
				if err := write(fmt.Sprintf("H%04d.bin", i), fsx.Content(i, 600), os.O_CREATE|os.O_RDWR); err != nil {
					break
				}
			}
			ev["full"] = full && full2
		case "fillodd":
			chunk := fsx.Content(5, []int{20000, 12000, 50000}[idx%3])
			if size <= 1<<20 {
				chunk = chunk[:1700]
			}
			if size > 24<<20 {
				chunk = fsx.Content(5, 150001) // keep the number of files (and FAT rewrites) bounded on the 34..40 MiB volumes
			}
			n := 0
			full := false
			for ; n < 20000; n++ {
				if err := write(fmt.Sprintf("f%05d", n), chunk, os.O_CREATE|os.O_RDWR); err != nil {
					full = true
					break
				}
			}
			for i := 0; i < n; i += 2 {
				calls++
				fs.Remove(fmt.Sprintf("f%05d", i))
			}
			m, refused := 0, 0
			for _, c := range []int{256 << 10, 100 << 10, 37 << 10, 5 << 10, 1 << 10} {
				if size <= 1<<20 {
					c /= 64
				}
				data := fsx.Content(6, c)
				for ; m < 20000; m++ {
					if err := write(fmt.Sprintf("g%05d", m), data, os.O_CREATE|os.O_RDWR); err != nil {
						m++
						refused++
						break
					}
				}
			}
			ev["full"] = full && refused > 0
		case "dirgrow":
			calls++
			fs.Mkdir("d")
			for i := 0; i < c03DirGrow; i++ {
				if err := write(fmt.Sprintf("d/a rather long file name number %04d %s.dat", i, strings.Repeat("n", i%30)), []byte{byte(i)}, os.O_CREATE|os.O_RDWR); err != nil {
					ev["full"] = true
					break
				}
			}
			for i := 0; i < c03DirGrow; i += 3 {
				calls++
				fs.Remove(fmt.Sprintf("d/a rather long file name number %04d %s.dat", i, strings.Repeat("n", i%30)))
			}
			for i := 0; i < c03DirGrow/3; i++ {
				if err := write(fmt.Sprintf("d/second round %04d.dat", i), fsx.Content(i, 100), os.O_CREATE|os.O_RDWR); err != nil {
					break
				}
			}
		default:
			fsx.Populate(fs, []fsx.Entry{{Path: "a.txt", Data: fsx.Content(1, 700)}, {Path: "dir", Dir: true}, {Path: "dir/b.bin", Data: fsx.Content(2, 30000)}, {Path: "dir/sub", Dir: true}, {Path: "dir/sub/c", Data: fsx.Content(3, 10)}})
			calls += 5
			write("a.txt", fsx.Content(4, 5000), os.O_RDWR)
			write("dir/b.bin", fsx.Content(5, 100), os.O_RDWR|os.O_APPEND)
			if f, err := fs.OpenFile("dir/b.bin", os.O_RDWR); err == nil {
				f.Seek(40000, 0)
				f.Write(fsx.Content(6, 10)) // gap past EOF
				f.Close()
			}
			calls += 4
			fs.Rename("a.txt", "renamed.txt")
			fs.Remove("dir/sub/c")
			fs.Remove("dir/sub")
			fs.SetLabel("NEWLABEL")
			t := time.Unix(1500000000, 0)
			fs.Chtimes("renamed.txt", t, t, t)
			if kind == "ext4" {
				fs.Symlink("renamed.txt", "lnk")
				fs.Chmod("renamed.txt", 0o600)
				fs.Chown("renamed.txt", 1, 2)
				fs.Symlink(strings.Repeat("t", 200), "slow")
				calls += 4
			}
			write("dir/trunc.bin", fsx.Content(8, 9000), os.O_CREATE|os.O_RDWR)
			write("dir/trunc.bin", fsx.Content(9, 10), os.O_RDWR|os.O_TRUNC)
		}
	}); pn != "" {
		ev["res"], ev["detail"] = "panic", pn
	}
	_ = path.Base
	return finish()
}

// number of long-named files of the directory-growth workload (quick 160: about 20 FAT clusters /
// several ext4 blocks of directory; thorough 600)
var c03DirGrow = 160

func randomBytes(seed int64, n int) []byte {
	b := make([]byte, n)
	x := uint64(seed)*0x9E3779B97F4A7C15 + 1
	for i := 0; i+8 <= n; i += 8 {
		x ^= x << 13
		x ^= x >> 7
		x ^= x << 17
		b[i], b[i+1], b[i+2], b[i+3], b[i+4], b[i+5], b[i+6], b[i+7] = byte(x), byte(x>>8), byte(x>>16), byte(x>>24), byte(x>>32), byte(x>>40), byte(x>>48), byte(x>>56)
	}
	return b
}

func C03(c *core.Ctx) {
	c.Rule = "case = one event of one of six sources, each judged by P_C03 of Range.tla (no WriteAt outside the owner's range, guard bytes intact): (1) one tuple of Range.tla: filesystem kind x start {0, one sector, 1 MiB, > 4 GiB on a sparse device} x size class {small, not a multiple of the cluster/block, mid} x workload {fill to no-space twice with directory creation at capacity, directory growth to hundreds of long names with removals, mixed create/overwrite/append/gap/rename/remove/label/attributes, finalized kinds: tree one and a half times the range}; (2) every call of TLC-generated FatTree walks (incl. Fill) on FAT12/16/32 volumes at the four starts; (3) every call of the scripted ExtTree behaviours (many extents, churn, big file) on ext4 volumes at the four starts; (4) every partition-table tuple of PartTable.tla (also judged by PartTable_Trace for C03: previous boot code and partition data kept) and the class foreign-regrow (GPT of 128..192 entries from an independent writer, read, adapted with Repair/Resize, last partition stretched to LastDataSector(), written: no byte of a partition range written); (5) every partition-contents tuple of PartIO.tla (write and raw copy); (6) every call of the composition behaviours of Disk.tla (Partition / CreateFilesystem / Finalize / file create+remove / WritePartitionContents / CopyPartitionRaw on a table with three slots): the bytes of every slot the call is not aimed at, the boot code and the gaps keep their digest, the table sectors change only in Partition; non-trivial = every event (distinct key = source + tuple/behaviour)"
	c.Assumptions = []string{"pattern-filled sparse memdev: every WriteAt is range-checked as it happens (FailOutside) and the bytes outside the range are compared with the background afterwards", "fill workloads must actually reach a refusal, otherwise the run is BROKEN (vacuous)"}
	mc, err := tlcRun("Range", "Range_MC.cfg")
	if err != nil || !mc.OK {
		c.Broken("Range MC: %v", err)
		return
	}
	if c.Tier == "thorough" {
		c03DirGrow = 600
	}
	var trace bytes.Buffer
	var flat []map[string]any
	add := func(ev map[string]any) {
		b, _ := json.Marshal(ev)
		b = bytes.ReplaceAll(b, []byte(":null"), []byte(":[]"))
		trace.Write(b)
		trace.WriteByte('\n')
		flat = append(flat, ev)
		c.AddEval(1)
	}
	// (1) the Range tuples
	gen, err := tlc.Run(tlc.Opts{Module: "Range_Gen", Config: "gen.cfg", Workers: 1, Files: map[string][]byte{"gen.cfg": []byte("SPECIFICATION GSpec\nCONSTANTS\n  Units = {1}\n  Owned = {1}\nINVARIANT Emit\nCHECK_DEADLOCK FALSE\n")}, Timeout: 10 * time.Minute})
	if err != nil || !gen.OK {
		c.Broken("Range_Gen: %v", err)
		return
	}
	c.States, c.Transitions = mc.Distinct+gen.Distinct, mc.Generated+gen.Generated
	var tuples []map[string]any
	seen := map[string]bool{}
	for _, l := range gen.Beh {
		if seen[l] {
			continue
		}
		seen[l] = true
		var t map[string]any
		if json.Unmarshal([]byte(l), &t) != nil {
			c.Broken("bad tuple %s", l)
			return
		}
		// quick: the expensive FAT32 / mid-size fills only at two starts
		if c.Tier != "thorough" && (str(t, "work") == "fill" || str(t, "work") == "fillodd") && (str(t, "kind") == "fat32" || str(t, "size") == "mid") && (str(t, "start") == "s0" || str(t, "start") == "s1m") {
			continue
		}
		tuples = append(tuples, t)
	}
	evs := make([]map[string]any, len(tuples))
	t0 := time.Now()
	durs := make([]time.Duration, len(tuples))
	parallel(len(tuples), func(i int) { s := time.Now(); evs[i] = c03Exec(tuples[i], i); durs[i] = time.Since(s) })
	if os.Getenv("C03_TIMING") != "" {
		for i := range tuples {
			if durs[i] > 5*time.Second {
				fmt.Printf("C03 slow tuple %s: %v\n", js(tuples[i]), durs[i].Round(time.Second))
			}
		}
		fmt.Printf("C03 part 1 (Range tuples): %v\n", time.Since(t0).Round(time.Second))
	}
	fills, full := 0, 0
	outcomes := map[string]int{}
	for i, ev := range evs {
		add(ev)
		c.Distinct("fs|" + js(tuples[i]))
		outcomes[str(tuples[i], "work")+":"+str(ev, "res")]++
		if str(tuples[i], "work") == "fill" || str(tuples[i], "work") == "fillodd" || str(tuples[i], "work") == "oversize" || str(tuples[i], "work") == "exactfit" || str(tuples[i], "work") == "exactdirs" {
			fills++
			if ev["full"] == true {
				full++
			}
		}
		if ev["res"] == "setup" {
			c.Broken("setup of %s: %v", js(tuples[i]), ev["detail"])
		}
		if i%37 == 5 {
			c.Sample(ev)
		}
	}
	c.Extra["fs_tuple_outcomes"] = outcomes
	c.Extra["fill_or_oversize_tuples"] = fills
	c.Extra["of_which_reached_refusal"] = full
	if full*2 < fills {
		c.Broken("only %d of %d fill/oversize workloads reached a refusal (vacuous)", full, fills)
	}
	// (2) FAT behaviours at the four starts
	const MiB = 1 << 20
	walks := 12
	if c.Tier == "thorough" {
		walks = 120
	}
	sim, err := tlc.Run(tlc.Opts{Module: "FatTree_Gen", Config: "gen.cfg", Workers: 1, Simulate: fmt.Sprintf("num=%d", walks), Depth: 27, Seed: c.Seed,
		Files: map[string][]byte{"gen.cfg": fatGenCfg(25, true, true)}, Timeout: 10 * time.Minute})
	if err != nil {
		c.Broken("FatTree_Gen simulate: %v", err)
		return
	}
	fbehs, err := parseFatBehs(sim.Beh)
	if err != nil {
		c.Broken("%v", err)
		return
	}
	fbehs = append(fbehs, fatFillCycles(3))
	fcfgs := []fatCfg{{Kind: "fat12", Size: 8192, Start: 0, Names: "plain"}, {Kind: "fat12", Size: 8192 + 512*3, Start: 512, Names: "tricky"}, {Kind: "fat12", Size: 64 * 1024, Start: MiB, Names: "short"},
		{Kind: "fat32", Size: 51200 + 512*7, Start: 5<<30 + 512, Names: "tricky"}, {Kind: "fat16", Size: 5*MiB + 512*3, Start: 512, Names: "plain"}}
	type fj struct {
		cfg fatCfg
		ops []fatOp
	}
	var fjobs []fj
	for ci, cfg := range fcfgs {
		for bi, ops := range fbehs {
			if cfg.Size > 64*1024 && (bi+ci)%3 != 0 {
				continue
			}
			fjobs = append(fjobs, fj{cfg, ops})
		}
	}
	fres := make([][]map[string]any, len(fjobs))
	parallel(len(fjobs), func(i int) { fres[i], _ = fatExec(fjobs[i].cfg, fjobs[i].ops, false, false) })
	for i, b := range fres {
		if b == nil {
			continue
		}
		c.Distinct(fmt.Sprintf("fat|%v|%v", fjobs[i].cfg, fjobs[i].ops))
		for k, ev := range b {
			add(map[string]any{"src": "fat", "cfg": fjobs[i].cfg, "a": ev["a"], "p": ev["p"], "res": ev["res"], "step": k, "outside": ev["outside"], "guards": 0, "first_outside": ev["first_outside"]})
		}
	}
	// (3) ext4 scripted behaviours at the four starts
	ecfgs := []extCfg{{Size: 20 * MiB, Start: 0, Journal: true}, {Size: 12*MiB + 512*3, Start: 512, SPB: 2}, {Size: 16 * MiB, Start: MiB, SPB: 8, Checksum: true, Extra: "noresize"}, {Size: 12 * MiB, Start: 5<<30 + 512, SPB: 2, Checksum: true}}
	type ej struct {
		cfg extCfg
		ops []extOp
	}
	var ejobs []ej
	for _, cfg := range ecfgs {
		for _, ops := range extScripted() {
			ejobs = append(ejobs, ej{cfg, ops})
		}
	}
	eres := make([][]map[string]any, len(ejobs))
	eerr := make([]error, len(ejobs))
	parallel(len(ejobs), func(i int) { eres[i], eerr[i] = extExec(ejobs[i].cfg, ejobs[i].ops) })
	for i, b := range eres {
		if eerr[i] != nil {
			c.Broken("ext4 volume %v: %v", ejobs[i].cfg, eerr[i])
			continue
		}
		c.Distinct(fmt.Sprintf("ext4|%v|%d", ejobs[i].cfg, i%2))
		for k, ev := range b {
			add(map[string]any{"src": "ext4", "cfg": ejobs[i].cfg, "a": ev["a"], "p": ev["p"], "res": ev["res"], "step": k, "outside": ev["outside"], "guards": 0, "first_outside": ev["first_outside"]})
		}
	}
	// (5) partition contents
	sub13 := core.NewCtx("C03", c.Tier, c.Level)
	ptuples, pevents, ok := c13Events(sub13)
	if !ok {
		c.Broken("PartIO tuples could not be generated")
		return
	}
	for i, ev := range pevents {
		w, _ := ev["w"].(map[string]any)
		cp, _ := ev["copy"].(map[string]any)
		if w == nil || cp == nil {
			continue
		}
		c.Distinct("partio|" + fmt.Sprint(ptuples[i]))
		wo, co := 0, 0
		fmt.Sscan(fmt.Sprint(w["outside"]), &wo)
		fmt.Sscan(fmt.Sprint(cp["outside"]), &co)
		add(map[string]any{"src": "partio", "tuple": ptuples[i], "call": "WritePartitionContents", "res": w["res"], "outside": wo, "guards": 0, "first_outside": w["first_outside"]})
		add(map[string]any{"src": "partio", "tuple": ptuples[i], "call": "CopyPartitionRaw", "res": cp["res"], "outside": co, "guards": 0})
	}
	tv, err := tlc.ValidateTrace("Range_Trace", "Range_Trace.cfg", trace.Bytes(), nil, 30*time.Minute, false)
	if err != nil {
		c.Broken("Range_Trace: %v", err)
		return
	}
	for _, idx := range tv.Mismatches {
		ev := flat[idx-1]
		var sig, msg string
		switch str(ev, "src") {
		case "fs":
			t := toStrMap(ev["t"])
			sig = fmt.Sprintf("outside-%s-%s", str(t, "kind"), str(t, "work"))
			if str(ev, "start") != "0" {
				sig += "-nonzero-start"
			}
			msg = fmt.Sprintf("%s at %v size %v, workload %s (%v calls, result %v %v): %v bytes written outside the range by WriteAt (first %v), %v guard bytes changed (first %v)", str(t, "kind"), ev["start"], ev["size"], str(t, "work"), ev["calls"], ev["res"], ev["detail"], ev["outside"], ev["first_outside"], ev["guards"], ev["first_guard"])
		case "fat", "ext4":
			sig = fmt.Sprintf("outside-%s-call-%s", str(ev, "src"), strings.ToLower(str(ev, "a")))
			msg = fmt.Sprintf("%s volume %v, step %v %v(%v) -> %v: %v bytes written outside the volume (first %v)", ev["src"], js(ev["cfg"]), ev["step"], ev["a"], ev["p"], ev["res"], ev["outside"], ev["first_outside"])
		default:
			sig = fmt.Sprintf("outside-partition-%s", str(ev, "call"))
			msg = fmt.Sprintf("%v on %v: %v bytes written outside the partition (first %v)", ev["call"], ev["tuple"], ev["outside"], ev["first_outside"])
		}
		c.Fail([]string{sig}, msg, ev)
	}
	c.TracesValidated = int64(len(flat) - len(tv.Mismatches))
	// (4) partition tables: their own generator and judge (outside = 0 and previous content kept)
	sub := core.NewCtx("C03", c.Tier, c.Level)
	ptRun(sub, "C03")
	ptForeignRegrow(sub)
	c.Absorb(sub)
	// (6) the composition (Disk.tla): table + three slots, the frame clause of Disk_Trace
	dkRunAll(c, "C03")
}
