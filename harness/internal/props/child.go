package props

// Child dispatches isolated child-process roles (crash-prone readers, second runs).
func Child(args []string) int {
	return 2
}
