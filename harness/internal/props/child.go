package props

import (
	"bufio"
	"bytes"
	"encoding/json"
	"fmt"
	"os"
	"os/exec"
	"runtime"
	"strings"
	"sync"
	"time"
)

// Child-process isolation for crash-prone code (C15, C18) and for second runs (C14).
// The parent feeds jobs (JSON lines) to `vcheck --child <role>`; the child answers one
// JSON line per job.  If the child dies, hangs or exhausts its address space on a job,
// that job gets the outcome crash/hang/oom and a fresh child continues with the next.

var childRoles = map[string]func(job map[string]any) map[string]any{}

func Child(args []string) int {
	if len(args) < 1 {
		return 2
	}
	f, ok := childRoles[args[0]]
	if !ok {
		fmt.Fprintln(os.Stderr, "unknown child role", args[0])
		return 2
	}
	in := bufio.NewScanner(os.Stdin)
	in.Buffer(make([]byte, 1<<20), 1<<26)
	out := bufio.NewWriter(os.Stdout)
	for in.Scan() {
		var job map[string]any
		if json.Unmarshal(in.Bytes(), &job) != nil {
			continue
		}
		var ms0, ms1 runtime.MemStats
		runtime.ReadMemStats(&ms0)
		res := f(job)
		runtime.ReadMemStats(&ms1)
		if res == nil {
			res = map[string]any{}
		}
		res["alloc_mb"] = int((ms1.TotalAlloc - ms0.TotalAlloc) >> 20)
		b, _ := json.Marshal(res)
		out.Write(b)
		out.WriteByte('\n')
		out.Flush()
		if res["exiting"] == true {
			// a job left a goroutine stuck inside the library: this process cannot be reused
			os.Exit(0)
		}
	}
	return 0
}

// runChildren shards jobs over nproc children; results are returned in job order.
func runChildren(role string, jobs []map[string]any, perJob time.Duration, memLimitKB int64, nproc int) []map[string]any {
	res := make([]map[string]any, len(jobs))
	if nproc < 1 {
		nproc = 1
	}
	var wg sync.WaitGroup
	for w := 0; w < nproc; w++ {
		wg.Add(1)
		go func(w int) {
			defer wg.Done()
			var idx []int
			for i := w; i < len(jobs); i += nproc {
				idx = append(idx, i)
			}
			runChildSeq(role, jobs, idx, res, perJob, memLimitKB)
		}(w)
	}
	wg.Wait()
	return res
}

func runChildSeq(role string, jobs []map[string]any, idx []int, res []map[string]any, perJob time.Duration, memLimitKB int64) {
	self, _ := os.Executable()
	pos := 0
	for pos < len(idx) {
		cmd := exec.Command("sh", "-c", fmt.Sprintf("ulimit -v %d; exec %s --child %s", memLimitKB, self, role))
		cmd.Env = append(os.Environ(), "GOMAXPROCS=1", "GOGC=400")
		stdin, _ := cmd.StdinPipe()
		stdout, _ := cmd.StdoutPipe()
		var stderr bytes.Buffer
		cmd.Stderr = &stderr
		if err := cmd.Start(); err != nil {
			for ; pos < len(idx); pos++ {
				res[idx[pos]] = map[string]any{"out": "infra", "detail": err.Error()}
			}
			return
		}
		lines := make(chan string, 16)
		go func() {
			sc := bufio.NewScanner(stdout)
			sc.Buffer(make([]byte, 1<<20), 1<<26)
			for sc.Scan() {
				lines <- sc.Text()
			}
			close(lines)
		}()
		alive := true
		for alive && pos < len(idx) {
			b, _ := json.Marshal(jobs[idx[pos]])
			if _, err := stdin.Write(append(b, '\n')); err != nil {
				alive = false
			}
			var line string
			ok := false
			if alive {
				select {
				case l, open := <-lines:
					if open {
						line, ok = l, true
					} else {
						alive = false
					}
				case <-time.After(perJob):
					alive = false
					cmd.Process.Kill()
					res[idx[pos]] = map[string]any{"out": "hang", "detail": fmt.Sprintf("no answer within %v", perJob)}
					pos++
					continue
				}
			}
			if ok {
				var r map[string]any
				if json.Unmarshal([]byte(line), &r) != nil {
					r = map[string]any{"out": "infra", "detail": "bad child line " + line}
				}
				res[idx[pos]] = r
				pos++
				if r["exiting"] == true {
					alive = false
					break
				}
				continue
			}
			// child died on this job
			cmd.Wait()
			e := stderr.String()
			out := "crash"
			if strings.Contains(e, "out of memory") || strings.Contains(e, "cannot allocate memory") {
				out = "oom"
			}
			if len(e) > 600 {
				e = e[:600]
			}
			res[idx[pos]] = map[string]any{"out": out, "detail": e}
			pos++
		}
		stdin.Close()
		if alive {
			cmd.Wait()
		} else {
			cmd.Process.Kill()
			cmd.Wait()
		}
	}
}
