package props

import (
	"unicode/utf16"
	"bytes"
	"crypto/sha256"
	"encoding/hex"
	"fmt"
	"math/rand"
	"sort"
	"path"
	"regexp"
	"strings"

	"github.com/diskfs/go-diskfs/filesystem"
	"github.com/diskfs/go-diskfs/filesystem/iso9660"
	"github.com/diskfs/go-diskfs/filesystem/squashfs"

	"verif/harness/internal/core"
	"verif/harness/internal/fsx"
	"verif/harness/internal/memdev"
	"verif/harness/internal/rawiso"
)

// Build-once images (C06 ISO9660, C07 squashfs; RoImage.tla): tree generation from the
// shape tuples, execution and projections.

func roNames(cls string, n int) []string {
	out := make([]string, n)
	for i := range out {
		switch cls {
		case "plain83":
			out[i] = fmt.Sprintf("F%06d.TXT", i)
			if i%3 == 1 {
				out[i] = fmt.Sprintf("DATA%03d", i)
			}
		case "collide":
			out[i] = fmt.Sprintf("file_number_%04d.dat", i)
		case "max":
			// names at the length limit (NAME_MAX = 255): 248..255 bytes, different at both ends
			L := []int{248, 249, 250, 251, 254, 255}[i%6]
			head, tail := fmt.Sprintf("n%03d_", i), fmt.Sprintf("_%03d.dat", i)
			out[i] = head + strings.Repeat("abcdefghijklmnopqrstuvwxyz", 10)[:L-len(head)-len(tail)] + tail
		case "unicode":
			out[i] = fmt.Sprintf("grüße-ñandú-%03d.txt", i)
			if i%2 == 1 {
				out[i] = fmt.Sprintf("файл-%03d.данные", i)
			}
		default:
			out[i] = fmt.Sprintf("A rather long File Name, number %03d.tar.gz", i)
			if i%2 == 1 {
				out[i] = fmt.Sprintf("lower_case-name.%03d.Data", i)
			}
			if cls == "dotfiles" && i%2 == 0 {
				out[i] = fmt.Sprintf(".hidden-dot-file-%03d", i)
			}
		}
	}
	return out
}

// roTree generates the source tree of a shape tuple (B = allocation unit of the format).
func roTree(t map[string]any, B int64, seed int64) []fsx.Entry {
	r := rand.New(rand.NewSource(seed))
	names := str(t, "names")
	var es []fsx.Entry
	sizeCycle := []int64{0, 1, B - 1, B, B + 1, 3*B + 17, 2 * B}
	k := 0
	addFile := func(dir, nm string) {
		p := nm
		if dir != "" {
			p = dir + "/" + nm
		}
		n := sizeCycle[k%len(sizeCycle)]
		k++
		es = append(es, fsx.Entry{Path: p, Data: fsx.Content(k, int(n))})
	}
	addFiles := func(dir string, n int) {
		for _, nm := range roNames(names, n) {
			addFile(dir, nm)
		}
	}
	dirName := func(i int) string {
		switch names {
		case "plain83":
			return fmt.Sprintf("DIR%d", i)
		case "unicode":
			return fmt.Sprintf("каталог-%d", i)
		case "collide":
			return fmt.Sprintf("directory_number_%d", i)
		case "max":
			L := []int{255, 250, 249, 252}[i%4]
			head := fmt.Sprintf("d%02d_", i)
			return head + strings.Repeat("ABCDEFGHIJKLMNOPQRSTUVWXYZ", 10)[:L-len(head)]
		}
		return fmt.Sprintf("Some Directory %d", i)
	}
	switch str(t, "shape") {
	case "empty":
	case "flat1":
		addFiles("", 1)
	case "wide40":
		addFiles("", 40)
		es = append(es, fsx.Entry{Path: dirName(1), Dir: true})
		addFiles(dirName(1), 2)
	case "wide300":
		addFiles("", 3)
		es = append(es, fsx.Entry{Path: dirName(1), Dir: true})
		addFiles(dirName(1), 300)
	case "deep8", "deep9":
		depth := 7 // directories below the root: 7 -> files at level 8
		if str(t, "shape") == "deep9" {
			depth = 9
		}
		p := ""
		for i := 1; i <= depth; i++ {
			if p == "" {
				p = dirName(i)
			} else {
				p = p + "/" + dirName(i)
			}
			es = append(es, fsx.Entry{Path: p, Dir: true})
			if i%3 == 0 {
				addFiles(p, 1)
			}
		}
		addFiles(p, 2)
	case "boundary":
		// one directory per entry count 40..75, all names of equal length: whatever the record
		// size of the format and options, some directory's last record ends exactly at the end
		// of a block, and some directory is exactly one record longer
		for n := 40; n <= 75; n++ {
			dn := fmt.Sprintf("K%02d", n)
			if names != "plain83" {
				dn = fmt.Sprintf("k-%02d", n)
			}
			es = append(es, fsx.Entry{Path: dn, Dir: true})
			for i := 0; i < n; i++ {
				nm := fmt.Sprintf("F%04d.TXT", i)
				if names != "plain83" {
					nm = fmt.Sprintf("f%04d.txt", i)
				}
				es = append(es, fsx.Entry{Path: dn + "/" + nm, Data: []byte{byte(n), byte(i)}})
			}
		}
	case "hugedir":
		// one directory whose listing is larger than 64 KiB (340 entries with 200-byte names): 16-bit size
		// fields, listings that span many metadata blocks / sectors
		es = append(es, fsx.Entry{Path: "z_big", Dir: true})
		for i := 0; i < 340; i++ {
			nm := fmt.Sprintf("e%04d-%s", i, strings.Repeat("abcdefghij", 20)[:194])
			if names == "plain83" {
				nm = fmt.Sprintf("E%07d.DAT", i)
			}
			es = append(es, fsx.Entry{Path: "z_big/" + nm, Data: []byte{byte(i), byte(i >> 8)}})
		}
	case "manyfrag":
		es = append(es, fsx.Entry{Path: "many", Dir: true})
		sz := int(B) - 96
		if B > 4096 {
			sz = 3000
		}
		for i := 0; i < 1100; i++ {
			es = append(es, fsx.Entry{Path: fmt.Sprintf("many/T%05d.BIN", i), Data: fsx.Content(i+1, sz)})
		}
	case "dotdirs":
		for _, dn := range []string{"v1.0", "v1.1", "v1.2", "conf.d", "conf.bak", "pkg", "pkg.old", "a.b.c", "a.b.d"} {
			if names == "plain83" {
				dn = strings.ToUpper(dn)
			}
			es = append(es, fsx.Entry{Path: dn, Dir: true})
			addFiles(dn, 2)
			es = append(es, fsx.Entry{Path: dn + "/" + map[bool]string{true: "INNER", false: "inner.d"}[names == "plain83"], Dir: true})
		}
		for _, fn := range []string{"data.1", "data.2", "data.10", "readme", "readme.txt"} {
			if names == "plain83" {
				fn = strings.ToUpper(fn)
			}
			addFile("", fn)
		}
	case "blocklists":
		for i := 0; i < 40; i++ {
			es = append(es, fsx.Entry{Path: fmt.Sprintf("F%02d.BIN", i), Data: fsx.Content(i+1, 100*4096+(i%3)*77)})
		}
	default: // mixed
		addFiles("", 4)
		es = append(es, fsx.Entry{Path: dirName(1), Dir: true}, fsx.Entry{Path: dirName(2), Dir: true}, fsx.Entry{Path: dirName(1) + "/" + dirName(3), Dir: true}, fsx.Entry{Path: dirName(4), Dir: true})
		addFiles(dirName(1), 5)
		addFiles(dirName(1)+"/"+dirName(3), 3)
		addFiles(dirName(2), 8)
	}
	if str(t, "sizes") == "multi" {
		big := make([]byte, 3<<20+777)
		r.Read(big) // incompressible
		zero := make([]byte, 1<<20+5)
		copy(zero[500000:], []byte("island of data in a sea of zeros"))
		text := bytes.Repeat([]byte("highly compressible line of text\n"), 20000)
		for i, d := range [][]byte{big, zero, text} {
			nm := roNames(names, 400)[390+i]
			es = append(es, fsx.Entry{Path: nm, Data: d})
		}
	}
	if str(t, "links") == "yes" {
		tgt := "missing"
		for _, e := range es {
			if !e.Dir {
				tgt = e.Path
				break
			}
		}
		ln := map[string][]string{"plain83": {"LNKREL", "LNKABS", "LNKLONG"}}[names]
		if ln == nil {
			ln = []string{"link-relative", "link-absolute", "link-with-a-long-target"}
		}
		es = append(es, fsx.Entry{Path: ln[0], Link: tgt}, fsx.Entry{Path: ln[1], Link: "/absolute/path/to/somewhere"}, fsx.Entry{Path: ln[2], Link: strings.Repeat("long/", 60) + "end"})
	}
	// one entry per path (a later entry for the same path replaces the earlier one)
	seen := map[string]int{}
	var out []fsx.Entry
	for _, e := range es {
		if i, ok := seen[e.Path]; ok {
			out[i] = e
			continue
		}
		seen[e.Path] = len(out)
		out = append(out, e)
	}
	return out
}

var reIsoBad = regexp.MustCompile("[^A-Z0-9_]")

// isoMangles reports whether img is a name the documented 8.3 rule allows for src:
// upper-case, characters outside [A-Z0-9_] -> _, base (before the FIRST dot) cut to 8 and
// extension to 3; on collision the base is cut to 8-d and d decimal digits are appended.
func isoMangles(src, img string, isDir bool) bool {
	img = strings.TrimSuffix(img, ";1")
	img = strings.TrimSuffix(img, ".")
	parts := strings.SplitN(src, ".", 2)
	base := reIsoBad.ReplaceAllString(strings.ToUpper(parts[0]), "_")
	ext := ""
	if len(parts) > 1 {
		ext = reIsoBad.ReplaceAllString(strings.ToUpper(parts[1]), "_")
	}
	if len(ext) > 3 {
		ext = ext[:3]
	}
	if isDir {
		ext = "" // a directory identifier has no extension: what follows the first dot is dropped
	}
	if len(base) > 8 {
		base = base[:8]
	}
	ib, ie := img, ""
	if i := strings.Index(img, "."); i >= 0 {
		ib, ie = img[:i], img[i+1:]
	}
	if ie != ext {
		return false
	}
	if ib == base {
		return true
	}
	for d := 1; d <= 7; d++ {
		if len(ib) < d {
			break
		}
		stem, digits := ib[:len(ib)-d], ib[len(ib)-d:]
		if strings.Trim(digits, "0123456789") != "" {
			continue
		}
		want := base
		if len(want) > 8-d {
			want = want[:8-d]
		}
		if stem == want {
			return true
		}
	}
	return false
}

type roNode struct {
	name  string
	kind  string
	hash  string
	link  string
	kids  []*roNode
}

func roHash(b []byte) string { h := sha256.Sum256(b); return hex.EncodeToString(h[:8]) }

func roFromEntries(es []fsx.Entry) *roNode {
	root := &roNode{kind: "dir"}
	find := func(p string) *roNode {
		n := root
		if p == "" || p == "." {
			return n
		}
		for _, c := range strings.Split(p, "/") {
			var nx *roNode
			for _, k := range n.kids {
				if k.name == c {
					nx = k
				}
			}
			if nx == nil {
				nx = &roNode{name: c, kind: "dir"}
				n.kids = append(n.kids, nx)
			}
			n = nx
		}
		return n
	}
	for _, e := range es {
		n := find(e.Path)
		switch {
		case e.Dir:
			n.kind = "dir"
		case e.Link != "":
			n.kind, n.link = "link", e.Link
		default:
			n.kind, n.hash = "file", roHash(e.Data)
		}
	}
	return root
}

func roFromWalk(w map[string]*fsx.Node) *roNode {
	var es []fsx.Entry
	paths := make([]string, 0, len(w))
	for p := range w {
		paths = append(paths, p)
	}
	sort.Strings(paths)
	for _, p := range paths {
		n := w[p]
		switch n.Kind {
		case "dir":
			es = append(es, fsx.Entry{Path: p, Dir: true})
		case "link":
			es = append(es, fsx.Entry{Path: p, Link: "\x00" + n.Link})
		default:
			d := n.Data
			if n.Err != "" {
				d = []byte("<<read error: " + n.Err + ">>")
			}
			es = append(es, fsx.Entry{Path: p, Data: d})
		}
	}
	root := roFromEntries(es)
	var fix func(n *roNode)
	fix = func(n *roNode) {
		n.link = strings.TrimPrefix(n.link, "\x00")
		for _, k := range n.kids {
			fix(k)
		}
	}
	fix(root)
	return root
}

func roCount(n *roNode) int {
	c := 0
	for _, k := range n.kids {
		c += 1 + roCount(k)
	}
	return c
}

// roMatch returns the size of the largest one-to-one matching between the entries of src and
// img (recursively) in which names agree under nameOK and kinds, contents, link targets agree.
func roMatch(src, img *roNode, nameOK func(s, i string, dir bool) bool, links bool) int {
	ns, ni := len(src.kids), len(img.kids)
	if ns == 0 || ni == 0 {
		return 0
	}
	// score[s][i] = matched entries below if s is paired with i (0 = incompatible, else 1+sub)
	score := make([][]int, ns)
	for s, a := range src.kids {
		score[s] = make([]int, ni)
		for i, b := range img.kids {
			if a.kind != b.kind && !(a.kind == "link" && !links) {
				continue
			}
			if !nameOK(a.name, b.name, a.kind == "dir") {
				continue
			}
			switch a.kind {
			case "file":
				if a.hash == b.hash {
					score[s][i] = 1
				}
			case "link":
				if !links || a.link == b.link {
					score[s][i] = 1
				}
			case "dir":
				score[s][i] = 1 + roMatch(a, b, nameOK, links)
			}
		}
	}
	return maxWeightAssignment(score, ns, ni)
}

// maxWeightAssignment: Hungarian algorithm (maximisation) on an ns x ni score matrix.
func maxWeightAssignment(score [][]int, ns, ni int) int {
	n := ns
	if ni > n {
		n = ni
	}
	const big = 1 << 30
	// cost = maxScore - score on a square matrix padded with zeros
	maxS := 0
	for s := 0; s < ns; s++ {
		for i := 0; i < ni; i++ {
			if score[s][i] > maxS {
				maxS = score[s][i]
			}
		}
	}
	cost := func(r, c int) int {
		if r < ns && c < ni {
			return maxS - score[r][c]
		}
		return maxS
	}
	u := make([]int, n+1)
	v := make([]int, n+1)
	pcol := make([]int, n+1)
	way := make([]int, n+1)
	for i := 1; i <= n; i++ {
		pcol[0] = i
		j0 := 0
		minv := make([]int, n+1)
		used := make([]bool, n+1)
		for j := range minv {
			minv[j] = big
		}
		for {
			used[j0] = true
			i0, delta, j1 := pcol[j0], big, 0
			for j := 1; j <= n; j++ {
				if used[j] {
					continue
				}
				cur := cost(i0-1, j-1) - u[i0] - v[j]
				if cur < minv[j] {
					minv[j], way[j] = cur, j0
				}
				if minv[j] < delta {
					delta, j1 = minv[j], j
				}
			}
			for j := 0; j <= n; j++ {
				if used[j] {
					u[pcol[j]] += delta
					v[j] -= delta
				} else {
					minv[j] -= delta
				}
			}
			j0 = j1
			if pcol[j0] == 0 {
				break
			}
		}
		for {
			j1 := way[j0]
			pcol[j0] = pcol[j1]
			j0 = j1
			if j0 == 0 {
				break
			}
		}
	}
	total := 0
	for j := 1; j <= n; j++ {
		r, c := pcol[j]-1, j-1
		if r >= 0 && r < ns && c < ni {
			total += score[r][c]
		}
	}
	return total
}

func roTreeSHA(n *roNode, links bool) string {
	var lines []string
	var rec func(prefix string, n *roNode)
	rec = func(prefix string, n *roNode) {
		for _, k := range n.kids {
			p := prefix + "/" + k.name
			l := p + "|" + k.kind + "|" + k.hash
			if links {
				l += "|" + k.link
			}
			lines = append(lines, l)
			rec(p, k)
		}
	}
	rec("", n)
	sort.Strings(lines)
	return roHash([]byte(strings.Join(lines, "\n")))
}

func toStrMap(v any) map[string]any {
	m, _ := v.(map[string]any)
	return m
}

// ---------------- C06 ----------------

func c06Exec(tp map[string]any, idx int) map[string]any {
	t, o := toStrMap(tp["t"]), toStrMap(tp["o"])
	ev := map[string]any{"res": "ok", "nsrc": 0, "nimg": 0, "nmatched": 0, "nsrcfiles": 0, "outside": 0, "raw": map[string]any{"problems": []string{}, "nfiles": 0, "digests": false}}
	bs := map[string]int64{"2048": 2048, "4096": 4096, "8192": 8192}[str(o, "bs")]
	start := map[string]int64{"s0": 0, "s1m": 1 << 20}[str(o, "start")]
	entries := roTree(t, bs, int64(idx))
	ev["dirtable"] = roDirTableBytes(entries)
	maxName := 0
	for _, e := range entries {
		if n := len(utf16.Encode([]rune(e.Path[strings.LastIndex(e.Path, "/")+1:]))); n > maxName {
			maxName = n
		}
	}
	ev["maxname"] = maxName
	rr, jol := str(o, "rr") == "rr", str(o, "joliet") == "jol"
	if !rr { // symlinks cannot be represented without Rock Ridge
		var es []fsx.Entry
		for _, e := range entries {
			if e.Link == "" {
				es = append(es, e)
			}
		}
		entries = es
	}
	size := int64(64 << 20)
	d := memdev.NewPattern(start + size + 1<<20)
	d.FailOutside = []memdev.Range{{Off: start, Len: size}}
	opts := &iso9660.FinalizeOptions{RockRidge: rr, Joliet: jol, DeepDirectories: str(o, "deep") == "deep", VolumeIdentifier: "VERIFVOL"}
	var vol *fsx.Vol
	var err error
	if p := fsx.Catch(func() { vol, err = fsx.BuildImageOn("iso", d, entries, fsx.Opt{Start: start, Size: size, Sector: bs, IsoOpts: opts}) }); p != "" {
		ev["res"], ev["detail"] = "panic", p
		return ev
	}
	out := int64(0)
	for _, x := range d.Outside {
		out += x.Len
	}
	ev["outside"] = out
	if len(d.Outside) > 0 {
		ev["first_outside"] = fmt.Sprintf("%d+%d (range starts at %d)", d.Outside[0].Off, d.Outside[0].Len, start)
	}
	if err != nil {
		ev["detail"] = err.Error()
		if strings.HasPrefix(err.Error(), "finalize:") || strings.HasPrefix(err.Error(), "populate") {
			ev["res"] = "refused"
		} else {
			ev["res"] = "err"
		}
		return ev
	}
	src := roFromEntries(entries)
	walked, werr := fsx.Walk(vol.FS, 64<<20)
	if werr != nil {
		ev["res"], ev["detail"] = "err", "walk: "+werr.Error()
		return ev
	}
	img := roFromWalk(walked)
	exact := rr || jol
	nameOK := func(s, i string, dir bool) bool {
		if exact {
			return s == i
		}
		return isoMangles(s, i, dir)
	}
	ev["nsrc"], ev["nimg"] = roCount(src), roCount(img)
	ev["nmatched"] = roMatch(src, img, nameOK, rr)
	// independent parse of the primary volume descriptor tree
	raw := map[string]any{"problems": []string{}, "nfiles": 0, "digests": false}
	nsrcfiles := 0
	var want []string
	for _, e := range entries {
		if !e.Dir && e.Link == "" {
			nsrcfiles++
			want = append(want, fmt.Sprintf("%d:%s", len(e.Data), roHash(e.Data)))
		}
	}
	ev["nsrcfiles"] = nsrcfiles
	if iso, perr := rawiso.ParseISO(d, start, size, bs); perr != nil {
		raw["problems"] = []string{"independent parser: " + perr.Error()}
	} else {
		probs := iso.Problems
		if probs == nil {
			probs = []string{}
		}
		raw["problems"] = probs
		var got []string
		nf := 0
		for _, e := range iso.Entries {
			if !e.IsDir && e.Flags&0 == 0 {
				// symlinks under Rock Ridge are zero-length files in the ISO9660 view
				nf++
				got = append(got, fmt.Sprintf("%d:%s", e.Size, e.Hash))
			}
		}
		nlinks := 0
		for _, e := range entries {
			if e.Link != "" {
				nlinks++
				want = append(want, fmt.Sprintf("0:%s", roHash(nil)))
			}
		}
		raw["nfiles"] = nf - nlinks
		sort.Strings(got)
		sort.Strings(want)
		raw["digests"] = strings.Join(got, ",") == strings.Join(want, ",")
	}
	ev["raw"] = raw
	return ev
}

// roDirTableBytes estimates the size of the squashfs directory table of a source tree: per directory one
// header (12 bytes) per 256 entries and 8 bytes + name per entry.
func roDirTableBytes(es []fsx.Entry) int {
	perDir := map[string]int{}
	bytesOf := map[string]int{}
	for _, e := range es {
		d := path.Dir(e.Path)
		perDir[d]++
		bytesOf[d] += 8 + len(path.Base(e.Path))
	}
	n := 0
	for d, c := range perDir {
		n += bytesOf[d] + 12*((c+255)/256)
	}
	return n
}

func roInt(v any) int {
	switch x := v.(type) {
	case int:
		return x
	case float64:
		return int(x)
	}
	return 0
}

func roSig(prop string) func(t, ev map[string]any, detail string) ([]string, string) {
	return func(t, ev map[string]any, detail string) ([]string, string) {
		o := toStrMap(t["o"])
		tr := toStrMap(t["t"])
		res := str(ev, "res")
		sig := prop + "-" + res
		raw := toStrMap(ev["raw"])
		switch {
		case prop == "C07" && res == "ok" && roInt(ev["dirtable"]) > 8192 && str(tr, "shape") != "hugedir" && strings.Contains(js(ev["bycache"]), "unable to read directory from table"):
			// (shape hugedir has a single directory below the root: its listing starts in the first metadata
			// block whatever the order of the table, so the recorded defect cannot be what fails there)
			// the call site of the recorded finding: a directory whose listing starts in a later metadata
			// block of the directory table (the table is larger than 8 KiB: many or very long names)
			return []string{"squashfs-directory-table-beyond-one-metadata-block"}, fmt.Sprintf("squashfs image whose directory table is larger than one 8 KiB metadata block (tree %s): %s (options %s)", js(tr), trunc(ev["bycache"]), js(o))
		case prop == "C06" && res == "err" && str(o, "rr") == "norr" && str(o, "joliet") == "jol" && roInt(ev["maxname"]) > 110 && strings.Contains(str(ev, "detail"), "could not parse Joliet directory entries"):
			// a Joliet record holds at most 110 UCS-2 characters of name (33 + 2n <= 254): longer names are written
			// in full and the one-byte record and name lengths wrap
			return []string{"iso-joliet-name-longer-than-a-record"}, fmt.Sprintf("Joliet without Rock Ridge, a name of %v characters: %v (tree %s, options %s)", ev["maxname"], ev["detail"], js(tr), js(o))
		case prop == "C06" && res == "err" && str(o, "rr") == "norr" && str(o, "joliet") == "jol" && strings.Contains(str(ev, "detail"), "could not find Joliet directory"):
			return []string{"iso-joliet-only-nested-directory-unreadable"}, fmt.Sprintf("Joliet without Rock Ridge: %v (tree %s, options %s)", ev["detail"], js(tr), js(o))
		case prop == "C06" && str(tr, "shape") == "deep9" && str(o, "rr") == "rr" && str(o, "deep") == "nodeep" && res == "ok":
			return []string{"iso-rockridge-relocation-of-deep-directories-broken"}, fmt.Sprintf("Rock Ridge relocation of a tree deeper than 8 (DeepDirectories off): read back %v of %v entries, %v matched; independent parser: %v (tree %s, options %s)", ev["nimg"], ev["nsrc"], ev["nmatched"], trunc(raw["problems"]), js(tr), js(o))
		case res == "panic" || res == "err":
		case ev["nmatched"] != ev["nsrc"] || ev["nimg"] != ev["nsrc"]:
			sig = prop + "-tree-differs"
			if prop == "C06" {
				sig += fmt.Sprintf("-%s-%s", str(o, "rr"), str(o, "joliet"))
			}
		case raw != nil && len(raw["problems"].([]string)) > 0:
			sig = prop + "-independent-parser-problems"
		case raw != nil && (raw["digests"] != true || raw["nfiles"] != ev["nsrcfiles"]):
			sig = prop + "-independent-parser-finds-other-files"
		case prop == "C07":
			sig = prop + "-options-or-superblock"
		}
		if s := str(tr, "shape"); s == "deep9" || s == "wide300" {
			sig += "-" + s
		}
		brief := map[string]any{}
		for k, v := range ev {
			if k != "shape" {
				brief[k] = v
			}
		}
		return []string{sig}, fmt.Sprintf("%s image built from %s with options %s: %s", prop, js(tr), js(o), trunc(brief))
	}
}

func roGenCfg(kind string, maxDev int) string {
	return fmt.Sprintf("SPECIFICATION Spec\nCONSTANTS\n  Kind = \"%s\"\n  MaxDev = %d\n  Paths = {\"a\"}\nINVARIANT Emit\nCHECK_DEADLOCK FALSE\n", kind, maxDev)
}

func C06(c *core.Ctx) {
	c.Rule = "case = one tuple of RoImage.tla: tree shape {empty, 1 file, 40 entries (multi-sector directory), 300 entries, depth 8, depth 9, mixed} x file sizes {0,1,sector-1,sector,sector+1,3 sectors+17; plus multi-MiB random / zero-run / text} x name class {8.3, long mixed-case with several dots, colliding after 8.3 truncation, non-ASCII} x symlinks x {RockRidge} x {Joliet} x {DeepDirectories} x block size 2048/4096/8192 x start 0 / 1 MiB, all tuples within MaxDev deviations of the base (quick 2, thorough 3), enumerated by TLC; non-trivial = Finalize accepted the tuple (distinct key = tuple)"
	c.Assumptions = []string{"View relation: exact names under Rock Ridge or Joliet, otherwise upper-case 8.3 mapping with numeric collision suffixes, judged by a maximum one-to-one matching of source and image entries", "independent ISO9660 reader (rawiso): PVD tree walk, extents inside the volume and disjoint, L path table names exactly the directories"}
	mc, err := tlcRun("RoImage", "RoImage_MC.cfg")
	if err != nil || !mc.OK {
		c.Broken("RoImage lifecycle MC: %v", err)
		return
	}
	maxDev := 2
	if c.Tier == "thorough" {
		maxDev = 3
	}
	ts := tupleSpace{GenModule: "RoImage_Gen", GenCfg: roGenCfg("iso", maxDev), TraceModule: "RoImage_Trace", TraceCfg: "RoImage_Trace_C06.cfg",
		Exec: c06Exec, Sig: roSig("C06"), NonTrivial: func(t, ev map[string]any) bool { return ev["res"] == "ok" }}
	_, events := ts.run(c)
	c.States += mc.Distinct
	c.Transitions += mc.Generated
	n := map[string]int{}
	for _, e := range events {
		n[str(e, "res")]++
	}
	c.Extra["outcomes"] = n
	if n["ok"] == 0 {
		c.Broken("no tuple was accepted by Finalize (vacuous)")
	}
}

// ---------------- C07 ----------------

func c07Exec(tp map[string]any, idx int) map[string]any {
	t, o := toStrMap(tp["t"]), toStrMap(tp["o"])
	ev := map[string]any{"res": "ok", "nsrc": 0, "nimg": 0, "nmatched": 0, "outside": 0, "bycache": []string{}, "srcsha": "", "maxend": 0, "sb": map[string]any{"magic": false, "used": 0}}
	bs := map[string]int64{"4096": 4096, "131072": 131072, "1048576": 1 << 20}[str(o, "bs")]
	start := map[string]int64{"s0": 0, "s1m": 1 << 20}[str(o, "start")]
	entries := roTree(t, bs, int64(idx))
	ev["dirtable"] = roDirTableBytes(entries)
	if bs > 4096 { // keep the many-file shapes affordable: the interesting sizes are relative to the block
		for i := range entries {
			if len(entries[i].Data) > 3<<20 {
				entries[i].Data = entries[i].Data[:3<<20]
			}
		}
	}
	size := int64(2 << 30) // roomy: whether an image that does not fit is refused is C03's business
	d := memdev.NewPattern(start + size + 1<<20)
	d.FailOutside = []memdev.Range{{Off: start, Len: size}}
	opts := &squashfs.FinalizeOptions{}
	switch str(o, "comp") {
	case "none":
		opts.Compression = nil
		opts.NoCompressData, opts.NoCompressInodes, opts.NoCompressFragments = true, true, true
	case "gzip":
		opts.Compression = &squashfs.CompressorGzip{}
	case "xz":
		opts.Compression = &squashfs.CompressorXz{}
	case "lz4":
		opts.Compression = &squashfs.CompressorLz4{}
	case "zstd":
		opts.Compression = &squashfs.CompressorZstd{}
	}
	switch str(o, "flags") {
	case "nofrag":
		opts.NoFragments = true
	case "nocompdata":
		opts.NoCompressData = true
	case "nocompinodes":
		opts.NoCompressInodes = true
	case "nocompfrags":
		opts.NoCompressFragments = true
	case "nopad":
		opts.NoPad = true
	case "nonsparse":
		opts.NonSparse = true
	}
	var vol *fsx.Vol
	var err error
	if p := fsx.Catch(func() { vol, err = fsx.BuildImageOn("squashfs", d, entries, fsx.Opt{Start: start, Size: size, SquashBlock: bs, SquashOpts: opts}) }); p != "" {
		ev["res"], ev["detail"] = "panic", p
		return ev
	}
	out := int64(0)
	maxEnd := int64(0)
	for _, op := range d.Log() {
		if op.Kind == "w" && op.Off+op.Len-start > maxEnd {
			maxEnd = op.Off + op.Len - start
		}
	}
	for _, x := range d.Outside {
		out += x.Len
	}
	ev["outside"], ev["maxend"] = out, maxEnd
	if err != nil {
		ev["detail"] = err.Error()
		if strings.HasPrefix(err.Error(), "finalize:") || strings.HasPrefix(err.Error(), "populate") {
			ev["res"] = "refused"
		} else {
			ev["res"] = "err"
		}
		return ev
	}
	src := roFromEntries(entries)
	ev["srcsha"] = roTreeSHA(src, true)
	exact := func(s, i string, dir bool) bool { return s == i }
	var shas []string
	sq := vol.FS.(*squashfs.FileSystem)
	caches := []int{-1, 0, int(bs), 3 * int(bs)}
	if sh := str(t, "shape"); sh == "wide300" || sh == "manyfrag" || sh == "boundary" || str(t, "sizes") == "multi" {
		caches = []int{-1, int(bs)} // the big trees: default cache and a cache of a single block
	}
	for ci, cache := range caches {
		if cache >= 0 {
			sq.SetCacheSize(cache)
		}
		walked, werr := fsx.Walk(vol.FS, 64<<20)
		if werr != nil {
			shas = append(shas, "walk error: "+werr.Error())
			continue
		}
		img := roFromWalk(walked)
		shas = append(shas, roTreeSHA(img, true))
		if ci == 0 {
			ev["nsrc"], ev["nimg"] = roCount(src), roCount(img)
			ev["nmatched"] = roMatch(src, img, exact, true)
		}
	}
	ev["bycache"] = shas
	if sb, perr := rawiso.ParseSquashSB(d, start); perr == nil {
		ev["sb"] = map[string]any{"magic": sb.MagicOK, "used": int(sb.BytesUsed), "blocksize": int(sb.BlockSize), "inodes": int(sb.Inodes), "compressor": int(sb.Compressor)}
	}
	return ev
}

func C07(c *core.Ctx) {
	c.Rule = "case = one tuple of RoImage.tla: tree shape x sizes (incl. multi-MiB random, zero runs, compressible text) x names x symlinks x compressor {none,gzip,xz,lz4,zstd} x flags {default, NoFragments, NoCompressData, NoCompressInodes, NoCompressFragments, NoPad, NonSparse} x block size 4 KiB/128 KiB/1 MiB x start 0 / 1 MiB; each image is walked under four cache sizes {default, 0, 1 block, 3 blocks}; tuples within MaxDev deviations of the base (quick 2, thorough 3); non-trivial = Finalize accepted (distinct key = tuple)"
	c.Assumptions = []string{"no external unsquashfs: the oracle is the source tree, agreement across options and cache sizes (every read-back digest must equal the source digest), and the independent superblock parser with the device write log"}
	mc, err := tlcRun("RoImage", "RoImage_MC.cfg")
	if err != nil || !mc.OK {
		c.Broken("RoImage lifecycle MC: %v", err)
		return
	}
	maxDev := 2
	if c.Tier == "thorough" {
		maxDev = 3
	}
	ts := tupleSpace{GenModule: "RoImage_Gen", GenCfg: roGenCfg("sq", maxDev), TraceModule: "RoImage_Trace", TraceCfg: "RoImage_Trace_C07.cfg",
		Exec: c07Exec, Sig: roSig("C07"), NonTrivial: func(t, ev map[string]any) bool { return ev["res"] == "ok" }}
	_, events := ts.run(c)
	c.States += mc.Distinct
	c.Transitions += mc.Generated
	n := map[string]int{}
	for _, e := range events {
		n[str(e, "res")]++
	}
	c.Extra["outcomes"] = n
	if n["ok"] == 0 {
		c.Broken("no tuple was accepted by Finalize (vacuous)")
	}
}

var _ filesystem.FileSystem
