package props

import (
	"fmt"
	"os"
	"sort"
	"strings"
	"time"

	"verif/harness/internal/core"
	"verif/harness/internal/tlc"
)

// C05 — every ext4 image the library produces is clean for e2fsck (ExtFsck.tla).

func c05Cfg(t map[string]any) extCfg {
	const MiB = 1 << 20
	cfg := extCfg{Fsck: true, Journal: str(t, "journal") == "j", Checksum: str(t, "csum") == "csum", Extra: str(t, "extra")}
	sizes := map[string][3]int64{"1k": {2 * MiB, 8 * MiB, 20 * MiB}, "2k": {4 * MiB, 24 * MiB, 72 * MiB}, "4k": {8 * MiB, 64 * MiB, 136 * MiB}}
	cfg.SPB = map[string]int{"1k": 2, "2k": 4, "4k": 8}[str(t, "blk")]
	cfg.Size = sizes[str(t, "blk")][map[string]int{"min": 0, "one": 1, "multi": 2}[str(t, "size")]]
	if str(t, "size") == "min" {
		cfg.Journal = false // the smallest volumes have no room for the 4096-block journal (refused cleanly)
	}
	if strings.Contains(cfg.Extra, "bpg256") {
		// a 4096-block journal does not fit the four extents of the journal inode when a group has 256
		// blocks: the library refuses that cleanly; the small-group layout is exercised without journal
		cfg.Journal = false
	}
	if str(t, "size") != "multi" && cfg.SPB == 2 && !strings.Contains(cfg.Extra, "noresize") && !strings.Contains(cfg.Extra, "bpg") {
		// a single block group has no backup group for the resize inode: refused cleanly by the library
		if cfg.Extra == "" {
			cfg.Extra = "noresize"
		} else {
			cfg.Extra += ",noresize"
		}
	}
	if cfg.SPB != 2 && !strings.Contains(cfg.Extra, "noresize") {
		// the library refuses resize-inode layouts it cannot build for non-1KiB blocks; that clean
		// refusal is not what this check is about
		if cfg.Extra == "" {
			cfg.Extra = "noresize"
		} else {
			cfg.Extra += ",noresize"
		}
	}
	return cfg
}

func C05(c *core.Ctx) {
	c.Rule = "case = (Create parameter tuple, call sequence, step): parameter tuples of ExtFsck.tla (block size 1k/2k/4k x journal x metadata_csum x {64bit, flex_bg, sparse_super2, blocks per group, inode ratio/count, dir_index, huge_file, resize inode} x size min/one group/multi group) within MaxDev deviations of the base, enumerated by TLC; call sequences from ExtTree_Gen (BFS sample, walks) plus scripted behaviours (many extents, directory churn, multi-block files); e2fsck -f -n after Create and after EVERY call, debugfs extraction at the end; non-trivial = every (tuple, sequence) (distinct key)"
	c.Assumptions = []string{"e2fsprogs 1.47 (e2fsck, debugfs) as the independent reference", "a Create tuple the library refuses cleanly is not a violation (counted)"}
	maxDev := 1
	depth, walks, wd := 1, 10, 20
	if c.Tier == "thorough" {
		maxDev, depth, walks, wd = 2, 2, 40, 30
	}
	gen, err := tlc.Run(tlc.Opts{Module: "ExtFsck_Gen", Config: "gen.cfg", Workers: 1, Files: map[string][]byte{"gen.cfg": []byte(fmt.Sprintf("SPECIFICATION Spec\nCONSTANT MaxDev = %d\nINVARIANT Emit\nCHECK_DEADLOCK FALSE\n", maxDev))}})
	if err != nil || !gen.OK {
		c.Broken("ExtFsck_Gen: %v", err)
		return
	}
	var tuples []map[string]any
	seen := map[string]bool{}
	for _, l := range gen.Beh {
		if seen[l] {
			continue
		}
		seen[l] = true
		var t map[string]any
		if jsonUnmarshal(l, &t) != nil {
			c.Broken("bad tuple")
			return
		}
		tuples = append(tuples, t)
	}
	sort.Slice(tuples, func(i, j int) bool { return js(tuples[i]) < js(tuples[j]) })
	behs, labels, ok := extGenerate(c, depth, true, walks, wd, true)
	if !ok {
		return
	}
	c.States, c.Transitions = gen.Distinct+c.States, gen.Generated+c.Transitions
	var jobs []extJob
	step := 29
	if c.Tier == "thorough" {
		step = 7
	}
	for ti, t := range tuples {
		cfg := c05Cfg(t)
		n := 0
		for bi, ops := range behs {
			big := cfg.Size > 40<<20
			if labels[bi] != "scripted" {
				if (bi+ti)%step != 0 || (big && n >= 2) {
					continue
				}
			} else if big && len(ops) > 20 {
				continue
			}
			n++
			ops2 := append(append([]extOp{}, ops...), extOp{A: "Debugfs"})
			jobs = append(jobs, extJob{cfg, ops2, labels[bi]})
		}
	}
	// budget: every job runs e2fsck after every step; beyond the budget the generated (not the scripted)
	// behaviours are sampled evenly
	const budget = 4000
	if len(jobs) > budget {
		var rest, gen []extJob
		for _, j := range jobs {
			if j.label == "scripted" {
				rest = append(rest, j)
			} else {
				gen = append(gen, j)
			}
		}
		room := budget - len(rest)
		if room < 1 {
			room = 1
		}
		stride := (len(gen) + room - 1) / room
		off := int(c.Seed % int64(stride))
		for i, j := range gen {
			if i%stride == off {
				rest = append(rest, j)
			}
		}
		c.Extra["generated_behaviours_sampled_1_in"] = stride
		jobs = rest
	}
	// run; Create refusals are tolerated here
	behsOut := make([][]map[string]any, len(jobs))
	errs := make([]error, len(jobs))
	parallel(len(jobs), func(i int) { behsOut[i], errs[i] = extExec(jobs[i].cfg, jobs[i].ops) })
	var good [][]map[string]any
	var goodJobs []extJob
	refused := map[string]string{}
	for i := range jobs {
		if errs[i] != nil {
			refused[fmt.Sprintf("%+v", jobs[i].cfg)] = errs[i].Error()
			continue
		}
		good = append(good, behsOut[i])
		goodJobs = append(goodJobs, jobs[i])
		c.AddEval(int64(len(behsOut[i])))
		c.Distinct(fmt.Sprintf("%+v|%v", jobs[i].cfg, jobs[i].ops))
		if i%(len(jobs)/4+1) == 1 {
			c.Sample(map[string]any{"cfg": jobs[i].cfg, "label": jobs[i].label, "ops": jobs[i].ops, "fsck_exit_codes": fsckCodes(behsOut[i])})
		}
	}
	strad := map[string]int{}
	for i, evs := range good {
		for _, ev := range evs {
			if ev["a"] == "GroupEdge" {
				k := fmt.Sprintf("edge spb%d/%s/%d:", goodJobs[i].cfg.SPB, goodJobs[i].cfg.Extra, goodJobs[i].cfg.Size>>20)
				if ev["edge"] == true {
					strad[k+"reached"]++
				} else {
					strad[k+"not-reached"]++
				}
			}
			if ev["a"] == "Straddle" {
				k := fmt.Sprintf("spb%d/%s/%d:", goodJobs[i].cfg.SPB, goodJobs[i].cfg.Extra, goodJobs[i].cfg.Size>>20)
				if ev["straddle"] == true {
					strad[k+"reached"]++
				} else {
					strad[k+"not-reached"]++
				}
			}
		}
	}
	c.Extra["straddle_macro_boundary"] = strad
	c.Extra["create_tuples"] = len(tuples)
	c.Extra["create_refused"] = refused
	if len(refused)*2 > len(tuples) {
		c.Broken("vacuous: Create refused %d of %d parameter tuples", len(refused), len(tuples))
	}
	if len(good) == 0 {
		c.Broken("no configuration could be created")
		return
	}
	trace, first := fatTraceBytes(good)
	tv, err := tlc.ValidateTrace("ExtFsck_Trace", "ExtFsck_Trace.cfg", trace, nil, 40*time.Minute, false)
	if err != nil {
		c.Broken("ExtFsck_Trace: %v", err)
		return
	}
	bad := map[int]bool{}
	for _, idx := range tv.Mismatches {
		bi := sort.SearchInts(first, idx+1) - 1
		if bi < 0 || bad[bi] {
			continue // the first offending call of a behaviour identifies the defect; later complaints follow from it
		}
		bad[bi] = true
		step := idx - first[bi]
		ev := good[bi][step]
		a := str(ev, "a")
		sig := "ext4-fsck-after-" + strings.ToLower(a)
		sigs := []string{}
		if a == "Reset" {
			sig = "ext4-fsck-after-create-" + strings.ReplaceAll(fmt.Sprintf("spb%d-%s", goodJobs[bi].cfg.SPB, goodJobs[bi].cfg.Extra), ",", "+")
			// root-cause signatures (input class AND symptom), so that a recorded Create defect is recognised at
			// every block size / parameter combination it shows at, and nothing else is
			txt, ex := str(ev, "fscktext"), goodJobs[bi].cfg.Extra
			groups := goodJobs[bi].cfg.Size / int64(goodJobs[bi].cfg.SPB*512) / int64(goodJobs[bi].cfg.SPB*512*8)
			if strings.Contains(ex, "sparse2") && groups >= 2 && c05OnlyComplaint(txt, "Block bitmap differences:  -(") {
				sigs = append(sigs, "ext4-create-sparse-super2-multigroup-marks-unused-backup-blocks")
			}
			if strings.Contains(ex, "bpg256") && !strings.Contains(ex, "bpg256nr") && strings.Contains(txt, "Corrupt group descriptor: bad block for block bitmap") {
				sigs = append(sigs, "ext4-fsck-after-create-spb2-bpg256")
			}
		}
		if a == "Truncate" && strings.Contains(str(ev, "fscktext"), "i_size is") && strings.Contains(str(ev, "fscktext"), ", should be") {
			sig = "ext4-truncate-keeps-blocks-beyond-new-size"
		}
		if a == "Debugfs" && ev["fsck"] == 0 {
			sig = "ext4-debugfs-content-differs"
		}
		ops := goodJobs[bi].ops
		if step < len(ops) {
			ops = ops[:step]
		}
		c.Fail(append(sigs, sig), fmt.Sprintf("ext4 %+v [%s]: after step %d %s(p=%v) -> %v: e2fsck -f -n exit %v: %v (dbg=%v err=%v)", goodJobs[bi].cfg, goodJobs[bi].label, step, a, ev["p"], ev["res"], ev["fsck"], firstLines(str(ev, "fscktext"), 6), ev["dbg"], ev["errtext"]),
			map[string]any{"cfg": goodJobs[bi].cfg, "ops_up_to_failure": ops, "results_up_to_failure": resultsOf(good[bi][:step+1]), "failing_step": step, "fsck_exit": ev["fsck"], "fsck_output": ev["fscktext"], "errtext": ev["errtext"]})
	}
	c.TracesValidated = int64(len(good) - len(bad))
	c.Extra["behaviours_executed"] = len(good)
}

func fsckCodes(evs []map[string]any) []any {
	var out []any
	for _, e := range evs {
		out = append(out, e["fsck"])
	}
	return out
}

func firstLines(s string, n int) string {
	ls := strings.Split(s, "\n")
	if len(ls) > n {
		ls = ls[:n]
	}
	return strings.Join(ls, " | ")
}

// ExtProbe is a development entry (not registered): one Create configuration given as JSON in
// VERIF_EXTCFG, a short scripted behaviour, e2fsck after every step; prints what e2fsck said.
func ExtProbe(c *core.Ctx) {
	var cfg extCfg
	if err := jsonUnmarshal(os.Getenv("VERIF_EXTCFG"), &cfg); err != nil {
		c.Broken("VERIF_EXTCFG: %v", err)
		return
	}
	cfg.Fsck = true
	ops := []extOp{{A: "Mkdir", P: "d"}, {A: "Create", P: "d/a"}, {A: "WriteAt", P: "d/a", Off: 0, Len: 5000, Tag: 1}, {A: "Remove", P: "d/a"}, {A: "Debugfs"}}
	if o := os.Getenv("VERIF_EXTOPS"); o != "" {
		ops = nil
		if err := jsonUnmarshal(o, &ops); err != nil {
			c.Broken("VERIF_EXTOPS: %v", err)
			return
		}
	}
	evs, err := extExec(cfg, ops)
	if err != nil {
		fmt.Println("refused:", err)
		return
	}
	for i, ev := range evs {
		fmt.Printf("%d %v res=%v fsck=%v %s\n", i, ev["a"], ev["res"], ev["fsck"], firstLines(str(ev, "fscktext"), 8))
	}
	c.AddEval(int64(len(evs)))
	c.Distinct("probe")
}

// c05OnlyComplaint: e2fsck's output holds the given complaint and no other kind of complaint (every line is
// a pass header, the complaint, its "Fix? no" answer, or the closing summary).
func c05OnlyComplaint(txt, complaint string) bool {
	if !strings.Contains(txt, complaint) {
		return false
	}
	for _, l := range strings.Split(txt, "\n") {
		l = strings.TrimSpace(l)
		switch {
		case l == "", strings.HasPrefix(l, "e2fsck "), strings.HasPrefix(l, "Pass "), strings.HasPrefix(l, "Fix? no"),
			strings.HasPrefix(l, strings.TrimSpace(complaint)), strings.Contains(l, "WARNING: Filesystem still has errors"),
			strings.Contains(l, " files ("), strings.HasPrefix(l, "verif:"):
		default:
			return false
		}
	}
	return true
}
