package props

import (
	"bytes"
	"encoding/binary"
	"fmt"
	iofs "io/fs"
	"os"
	"os/exec"
	"path/filepath"
	"regexp"
	"runtime"
	"runtime/debug"
	"sort"
	"strconv"
	"strings"
	"sync"
	"syscall"
	"time"

	"github.com/diskfs/go-diskfs/filesystem"
	"github.com/diskfs/go-diskfs/filesystem/iso9660"

	"verif/harness/internal/core"
	"verif/harness/internal/fsx"
	"verif/harness/internal/memdev"
	"verif/harness/internal/rawfat"
)

// C18 — opening and walking a damaged filesystem image cannot crash (Corrupt.tla).

type c18Base struct {
	ID, Kind     string
	Size, Sector int64
	Block        int64
}

var c18Kinds = map[string]c18Base{
	"fat12":    {ID: "fat12", Kind: "fat12", Size: 1 << 20, Sector: 512, Block: 512},
	"fat16":    {ID: "fat16", Kind: "fat16", Size: 5 << 20, Sector: 512, Block: 512},
	"fat32":    {ID: "fat32", Kind: "fat32", Size: 34 << 20, Sector: 512, Block: 512},
	"ext4":     {ID: "ext4", Kind: "ext4", Size: 20 << 20, Sector: 512, Block: 1024},
	"ext4m":    {ID: "ext4m", Kind: "ext4", Size: 16 << 20, Sector: 512, Block: 1024},
	"iso":      {ID: "iso", Kind: "iso", Size: 2 << 20, Sector: 2048, Block: 2048},
	"squashfs": {ID: "squashfs", Kind: "squashfs", Size: 1 << 20, Sector: 4096, Block: 4096},
}

func c18Entries(links, chain bool) []fsx.Entry {
	es := []fsx.Entry{{Path: "a.txt", Data: fsx.Content(1, 700)}, {Path: "dir", Dir: true}, {Path: "dir/b.bin", Data: fsx.Content(2, 3000)},
		{Path: "dir/sub", Dir: true}, {Path: "dir/sub/c", Data: fsx.Content(3, 10)}, {Path: "a long file name with spaces.text", Data: fsx.Content(4, 100)},
		{Path: "empty", Data: []byte{}}, {Path: "big", Data: fsx.Content(5, 9000)}}
	if links {
		es = append(es, fsx.Entry{Path: "lnk", Link: "a.txt"}, fsx.Entry{Path: "dir/slow", Link: strings.Repeat("t/", 40) + "x"})
		if chain {
			// a target long enough for a chain of two continuation areas (ISO9660 Rock Ridge)
			es = append(es, fsx.Entry{Path: "verylong", Link: strings.Repeat(strings.Repeat("c", 150)+"/", 19) + "end"})
		}
	}
	return es
}

// c18BuildBase builds the base image for id and saves it under dir.
func c18BuildBase(id, dir string) error {
	b := c18Kinds[id]
	var d *memdev.Dev
	switch id {
	case "fat12", "fat16", "fat32", "ext4":
		v, err := fsx.CreateMutable(b.Kind, fsx.Opt{Size: b.Size})
		if err != nil {
			return err
		}
		if err := fsx.Populate(v.FS, c18Entries(id == "ext4", false)); err != nil {
			return err
		}
		// two files grown alternately: fragmented chains / several extents
		for i := 0; i < 4; i++ {
			for _, p := range []string{"frag1", "frag2"} {
				f, err := v.FS.OpenFile(p, os.O_CREATE|os.O_RDWR|os.O_APPEND)
				if err != nil {
					return err
				}
				if _, err := f.Write(fsx.Content(10+i, 1500)); err != nil {
					return err
				}
				f.Close()
			}
		}
		d = v.Dev
	case "iso", "squashfs":
		v, err := fsx.BuildImage(b.Kind, c18Entries(true, id == "iso"), fsx.Opt{Size: b.Size, IsoOpts: &iso9660.FinalizeOptions{RockRidge: true}})
		if err != nil {
			return err
		}
		d = v.Dev
	case "ext4m":
		work, err := os.MkdirTemp("", "c18m")
		if err != nil {
			return err
		}
		defer os.RemoveAll(work)
		src := filepath.Join(work, "src")
		os.MkdirAll(filepath.Join(src, "dir/sub"), 0o755)
		os.MkdirAll(filepath.Join(src, "big"), 0o755)
		os.WriteFile(filepath.Join(src, "a.txt"), fsx.Content(1, 700), 0o644)
		os.WriteFile(filepath.Join(src, "dir/b.bin"), fsx.Content(2, 3000), 0o644)
		os.WriteFile(filepath.Join(src, "dir/sub/c"), fsx.Content(3, 10), 0o644)
		os.Symlink("a.txt", filepath.Join(src, "lnk"))
		os.Symlink(strings.Repeat("t/", 40)+"x", filepath.Join(src, "slow"))
		for i := 0; i < 36; i++ {
			os.WriteFile(filepath.Join(src, "big", fmt.Sprintf("entry-%03d-%s", i, strings.Repeat("n", 90+i%20))), fsx.Content(i, 5), 0o644)
		}
		// sparse file with 12 extents: an extent tree with an index node
		f, _ := os.Create(filepath.Join(src, "frag"))
		for i := 0; i < 12; i++ {
			f.WriteAt(fsx.Content(40+i, 4096), int64(i)*8192)
		}
		f.Close()
		img := filepath.Join(work, "img")
		if out, err := exec.Command("/usr/sbin/mke2fs", "-q", "-F", "-t", "ext4", "-b", "1024", "-I", "256", "-d", src, img, "16M").CombinedOutput(); err != nil {
			return fmt.Errorf("mke2fs: %s", out)
		}
		val := filepath.Join(work, "val")
		os.WriteFile(val, []byte(strings.Repeat("v", 300)), 0o644)
		exec.Command("/usr/sbin/debugfs", "-w", "-R", "ea_set -f "+val+" /a.txt user.big", img).Run()
		exec.Command("/usr/sbin/debugfs", "-w", "-R", "ea_set /dir/b.bin user.small x", img).Run()
		exec.Command("/usr/sbin/e2fsck", "-f", "-y", "-D", img).Run()
		raw, err := os.ReadFile(img)
		if err != nil {
			return err
		}
		d = memdev.New(int64(len(raw)))
		d.WriteAt(raw, 0)
	default:
		return fmt.Errorf("unknown base %s", id)
	}
	return d.Save(filepath.Join(dir, id+".img"))
}

var reRepoFrame = regexp.MustCompile(`github\.com/diskfs/go-diskfs/([^\s(]+(?:\([^)]*\))?[^\s(]*)\(`)

var reRepoLine = regexp.MustCompile(`/((?:filesystem|partition|disk|backend|sync|util)/\S+\.go:\d+)`)

// c18Catch runs f; on panic returns the message and the innermost library function on the stack.
func c18Catch(f func()) (msg, site string) {
	defer func() {
		if r := recover(); r != nil {
			msg = strings.TrimSpace(fmt.Sprint(r))
			st := string(debug.Stack())
			// frames after the panic call: the first library frame is where it happened
			if i := strings.Index(st, "panic("); i >= 0 {
				st = st[i:]
			}
			if ms := reRepoFrame.FindAllStringSubmatch(st, 4); len(ms) > 0 {
				site = ms[0][1]
				var fr []string
				for _, m := range ms {
					fr = append(fr, m[1])
				}
				if ls := reRepoLine.FindStringSubmatch(st); ls != nil {
					fr[0] += " (" + ls[1] + ")"
				}
				msg += " @ " + strings.Join(fr, " <- ")
			} else {
				site = "outside-library"
			}
		}
	}()
	f()
	return "", ""
}

var c18Trace bool

var c18Buf = sync.Pool{New: func() any { b := make([]byte, 32*1024); return &b }}

type c18Result struct {
	Out, Detail, Site string
	Nodes             int
}

// c18Walk opens the image and lists every directory, stats every entry, resolves every
// link and reads every file.  The caps (depth, node count, bytes per file) belong to the
// walker: a corrupted image may describe an endless tree.
func c18Walk(kind string, d *memdev.Dev, b c18Base) (res c18Result) {
	return c18WalkObs(kind, d, b, nil)
}

// c18WalkObs: onFile (clean-walk instrumentation in the parent) is told when the content of a
// file starts being read and what was delivered.
func c18WalkObs(kind string, d *memdev.Dev, b c18Base, c18OnFile func(begin bool, data []byte)) (res c18Result) {
	var fs filesystem.FileSystem
	var err error
	if msg, site := c18Catch(func() { fs, err = fsx.OpenKind(kind, d, b.Size, 0, b.Sector, true) }); msg != "" {
		return c18Result{Out: "panic", Detail: "open: " + msg, Site: site}
	}
	if err != nil && strings.HasPrefix(err.Error(), "panic in ") {
		// fsx.OpenKind recovers panics of the Read functions and reports them as errors of this form
		site := "open"
		if i := strings.Index(err.Error(), ".Read:"); i > 0 {
			site = "filesystem/" + strings.TrimPrefix(err.Error()[:i], "panic in ") + ".Read"
		}
		return c18Result{Out: "panic", Detail: "open: " + err.Error(), Site: site}
	}
	if err != nil || fs == nil {
		return c18Result{Out: "error", Detail: fmt.Sprint(err)}
	}
	nodes := 0
	limit := 2*b.Size + 4096
	budget := 4 * b.Size
	var rec func(dir string, depth int)
	rec = func(dir string, depth int) {
		if depth > 12 || nodes > 3000 {
			return
		}
		ents, err := fs.ReadDir(dir)
		if err != nil {
			return
		}
		for _, e := range ents {
			nm := e.Name()
			if nm == "." || nm == ".." {
				continue
			}
			nodes++
			if nodes > 3000 {
				return
			}
			p := nm
			if dir != "." && dir != "/" && dir != "" {
				p = dir + "/" + nm
			}
			info, _ := e.Info()
			if st, ok := fs.(interface {
				Stat(string) (iofs.FileInfo, error)
			}); ok {
				if i2, err := st.Stat(p); err == nil {
					_ = i2.Size()
					_ = i2.Mode()
					_ = i2.ModTime()
					_ = i2.Sys()
				}
			}
			if info != nil {
				_ = info.Size()
				_ = info.Mode()
				_ = info.ModTime()
				_ = info.Sys()
			}
			switch {
			case e.IsDir():
				rec(p, depth+1)
			case e.Type()&iofs.ModeSymlink != 0:
				if rl, ok := fs.(interface{ ReadLink(string) (string, error) }); ok {
					rl.ReadLink(p)
				}
			default:
				if c18Trace {
					var m runtime.MemStats
					runtime.ReadMemStats(&m)
					fmt.Printf("  totalalloc %d KiB before ", m.TotalAlloc>>10)
				}
				f, err := fs.OpenFile(p, os.O_RDONLY)
				if c18Trace {
					fmt.Printf("  open %q size %v err %v\n", p, func() int64 {
						if info != nil {
							return info.Size()
						}
						return -1
					}(), err)
				}
				if err != nil {
					continue
				}
				if c18OnFile != nil {
					c18OnFile(true, nil)
				}
				var data []byte
				if c18OnFile != nil {
					data, _ = fsx.ReadAll(f, limit)
					c18OnFile(false, data)
				} else {
					// content is discarded (the allocation measured is the library's); the walk as a
					// whole reads at most 4 x the image size, whatever sizes the damaged image claims
					bp := c18Buf.Get().(*[]byte)
					zero := 0
					for n := int64(0); n < limit && budget > 0; {
						k, err := f.Read(*bp)
						n += int64(k)
						budget -= int64(k)
						if k == 0 {
							zero++
						} else {
							zero = 0
						}
						if err != nil || zero > 3 {
							break
						}
					}
					c18Buf.Put(bp)
				}
				f.Close()
			}
			if x, ok := fs.(interface {
				GetXattr(string) (map[string][]byte, error)
			}); ok {
				x.GetXattr(p)
			}
		}
	}
	if msg, site := c18Catch(func() { rec(".", 0) }); msg != "" {
		return c18Result{Out: "panic", Detail: "walk: " + msg, Site: site, Nodes: nodes}
	}
	return c18Result{Out: "ok", Nodes: nodes}
}

// ---- values ----
func c18Value(cls string, w int, orig []byte, off int64, b c18Base, tablen uint64) ([]byte, bool) {
	var o uint64
	for i := w - 1; i >= 0; i-- {
		o = o<<8 | uint64(orig[i])
	}
	mask := uint64(1)<<(8*uint(w)) - 1
	var v uint64
	switch cls {
	case "zero":
		v = 0
	case "one":
		v = 1
	case "four":
		v = 4
	case "eight":
		v = 8
	case "ones":
		v = mask
	case "msb":
		v = 1 << (8*uint(w) - 1)
	case "max":
		v = mask >> 1
	case "inc":
		v = o + 1
	case "dec":
		v = o - 1
	case "dbl":
		v = o * 2
	case "flip0":
		v = o ^ 1
	case "flip7":
		v = o ^ (1 << (8*uint(w) - 1))
	case "selfsec":
		v = uint64(off / 512)
	case "selfblk":
		v = uint64(off / b.Block)
	case "imgbytes":
		v = uint64(b.Size)
	case "imgblks":
		v = uint64(b.Size / b.Block)
	case "fattablen":
		if tablen == 0 {
			return nil, false
		}
		v = tablen
	default:
		return nil, false
	}
	v &= mask
	if v == o {
		return nil, false
	}
	out := make([]byte, w)
	for i := 0; i < w; i++ {
		out[i] = byte(v >> (8 * uint(i)))
	}
	return out, true
}

// ---- child ----
var c18Cache = struct {
	sync.Mutex
	m map[string]*memdev.Dev
}{m: map[string]*memdev.Dev{}}

// job: {dir, base, off, w ("1","2","4","fat"), classes: [...], cluster (fat), vals: {cls: number} (fat)}
func c18Child(job map[string]any) map[string]any {
	id := str(job, "base")
	b := c18Kinds[id]
	c18Cache.Lock()
	d := c18Cache.m[id]
	if d == nil {
		var err error
		d, err = memdev.Load(filepath.Join(str(job, "dir"), id+".img"))
		if err != nil {
			c18Cache.Unlock()
			return map[string]any{"out": "infra", "detail": err.Error()}
		}
		d.ReadOnly = true
		c18Cache.m[id] = d
	}
	c18Cache.Unlock()
	off := int64(job["off"].(float64))
	results := map[string]any{}
	stuck := false
	apply := func(cls string, patch func() (restore func(), ok bool)) {
		if stuck {
			return
		}
		restore, ok := patch()
		if !ok {
			results[cls] = map[string]any{"out": "same"}
			return
		}
		var m0, m1 runtime.MemStats
		runtime.ReadMemStats(&m0)
		t0 := time.Now()
		done := make(chan c18Result, 1)
		go func() { done <- c18Walk(b.Kind, d, b) }()
		var r c18Result
		cpu0 := cpuMillis()
		finished := false
		for !finished {
			select {
			case r = <-done:
				finished = true
			case <-time.After(200 * time.Millisecond):
				// time is CPU time of this process (one case at a time): a loaded machine must not
				// turn a slow case into a hang; the wall-clock limit is only a backstop
				if cpuMillis()-cpu0 > c18Deadline.Milliseconds() || time.Since(t0) > 90*time.Second {
					// the goroutine cannot be stopped: answer and let the process end
					stuck = true
					runtime.ReadMemStats(&m1)
					results[cls] = map[string]any{"out": "hang", "detail": fmt.Sprintf("open + walk still running after %d ms of CPU time (%v wall)", cpuMillis()-cpu0, time.Since(t0).Round(time.Millisecond)), "site": "", "ms": cpuMillis() - cpu0, "alloc_mb": int((m1.TotalAlloc - m0.TotalAlloc) >> 20), "peak_mb": int64(m1.Sys>>20) - int64(m0.Sys>>20), "nodes": 0}
					return
				}
			}
		}
		ms := cpuMillis() - cpu0
		runtime.ReadMemStats(&m1)
		restore()
		// cumulative allocation, less what a walk over that many entries normally costs (every open
		// re-reads directories and the allocation table: up to 4 x the image size per entry);
		// peak: growth of the memory obtained from the OS during this case
		cum := int64((m1.TotalAlloc-m0.TotalAlloc)>>20) - int64(r.Nodes)*4*(b.Size>>20)
		if cum < 0 {
			cum = 0
		}
		peak := int64(m1.Sys>>20) - int64(m0.Sys>>20)
		if peak < 0 {
			peak = 0
		}
		results[cls] = map[string]any{"out": r.Out, "detail": trunc(r.Detail), "site": r.Site, "ms": ms, "alloc_mb": cum, "peak_mb": peak, "nodes": r.Nodes}
		if peak > 32+8*(b.Size>>20) {
			stuck = true // the heap has grown: later cases would hide their own growth in it; fresh process
		}
	}
	if str(job, "w") == "fat" {
		vals := toStrMap(job["vals"])
		fatOffs := job["fatoffs"].([]any) // byte offset of each FAT copy
		bits := int(job["bits"].(float64))
		cl := int64(job["cluster"].(float64))
		for cls, vv := range vals {
			v := uint32(vv.(float64))
			apply(cls, func() (func(), bool) {
				var restores []func()
				for _, fo := range fatOffs {
					base := int64(fo.(float64))
					var eo int64
					var n int
					switch bits {
					case 12:
						eo, n = base+cl*3/2, 2
					case 16:
						eo, n = base+cl*2, 2
					default:
						eo, n = base+cl*4, 4
					}
					orig := d.Bytes(eo, int64(n))
					nb := append([]byte(nil), orig...)
					switch bits {
					case 12:
						x := binary.LittleEndian.Uint16(nb)
						if cl%2 == 0 {
							x = x&0xF000 | uint16(v&0xFFF)
						} else {
							x = x&0x000F | uint16(v&0xFFF)<<4
						}
						binary.LittleEndian.PutUint16(nb, x)
					case 16:
						binary.LittleEndian.PutUint16(nb, uint16(v))
					default:
						binary.LittleEndian.PutUint32(nb, v&0x0FFFFFFF|binary.LittleEndian.Uint32(orig)&0xF0000000)
					}
					d.Poke(eo, nb)
					restores = append(restores, func() { d.Poke(eo, orig) })
				}
				return func() {
					for _, r := range restores {
						r()
					}
				}, true
			})
		}
		return map[string]any{"out": "done", "results": results, "exiting": stuck}
	}
	w, _ := strconv.Atoi(str(job, "w"))
	orig := d.Bytes(off, int64(w))
	for _, c := range job["classes"].([]any) {
		cls := fmt.Sprint(c)
		apply(cls, func() (func(), bool) {
			tl, _ := job["tablen"].(float64)
			nb, ok := c18Value(cls, w, orig, off, b, uint64(tl))
			if !ok {
				return nil, false
			}
			d.Poke(off, nb)
			return func() { d.Poke(off, orig) }, true
		})
	}
	return map[string]any{"out": "done", "results": results, "exiting": stuck}
}

const c18Deadline = 4 * time.Second

// cpuMillis is the CPU time (user + system) this process has used
func cpuMillis() int64 {
	var ru syscall.Rusage
	if syscall.Getrusage(syscall.RUSAGE_SELF, &ru) != nil {
		return 0
	}
	return ru.Utime.Sec*1000 + int64(ru.Utime.Usec)/1000 + ru.Stime.Sec*1000 + int64(ru.Stime.Usec)/1000
}

func init() { childRoles["c18"] = c18Child }

// ---- regions (for failure signatures) ----
func c18Region(b c18Base, d *memdev.Dev, off int64) string {
	switch b.Kind {
	case "fat12", "fat16", "fat32":
		v, err := rawfat.Parse(d, 0, b.Size)
		if err != nil {
			return "?"
		}
		fatStart := int64(v.Reserved) * int64(v.BPS)
		fatEnd := fatStart + int64(v.NumFATs)*v.FATSectors*int64(v.BPS)
		switch {
		case off < fatStart:
			return "boot"
		case off < fatEnd:
			return "fat"
		case off < v.DataStart:
			return "rootdir"
		}
		return "directory-or-data"
	case "ext4":
		if off >= 1024 && off < 2048 {
			return "superblock"
		}
		if off < 1024 {
			return "boot"
		}
		sb := d.Bytes(1024, 1024)
		bs := int64(1024) << binary.LittleEndian.Uint32(sb[24:28])
		ipg := int64(binary.LittleEndian.Uint32(sb[40:44]))
		isz := int64(binary.LittleEndian.Uint16(sb[88:90]))
		bpg := int64(binary.LittleEndian.Uint32(sb[32:36]))
		blocks := int64(binary.LittleEndian.Uint32(sb[4:8]))
		groups := (blocks + bpg - 1) / bpg
		dsz := int64(32)
		if binary.LittleEndian.Uint32(sb[96:100])&0x80 != 0 {
			dsz = int64(binary.LittleEndian.Uint16(sb[254:256]))
			if dsz < 32 {
				dsz = 32
			}
		}
		gdt := bs
		if bs == 1024 {
			gdt = 2048
		}
		if off >= gdt && off < gdt+groups*dsz {
			return "group-descriptors"
		}
		for g := int64(0); g < groups; g++ {
			gd := d.Bytes(gdt+g*dsz, dsz)
			it := int64(binary.LittleEndian.Uint32(gd[8:12])) * bs
			if off >= it && off < it+ipg*isz {
				return "inode-table"
			}
		}
		return "directory-extent-xattr-or-data"
	case "iso":
		sec := off / 2048
		if sec < 16 {
			return "system-area"
		}
		pvd := d.Bytes(16*2048, 2048)
		ptl := int64(binary.LittleEndian.Uint32(pvd[140:144]))
		ptm := int64(binary.BigEndian.Uint32(pvd[148:152]))
		if sec >= 16 && sec < 16+4 && d.Bytes(sec*2048+1, 5)[0] == 'C' {
			return "volume-descriptor"
		}
		if sec == ptl || sec == ptm {
			return "path-table"
		}
		return "directory-or-data"
	case "squashfs":
		if off < 96 {
			return "superblock"
		}
		sb := d.Bytes(0, 96)
		type tb struct {
			name string
			at   int64
		}
		ts := []tb{{"id-table", int64(binary.LittleEndian.Uint64(sb[48:56]))}, {"xattr-table", int64(binary.LittleEndian.Uint64(sb[56:64]))}, {"inode-table", int64(binary.LittleEndian.Uint64(sb[64:72]))},
			{"directory-table", int64(binary.LittleEndian.Uint64(sb[72:80]))}, {"fragment-table", int64(binary.LittleEndian.Uint64(sb[80:88]))}, {"export-table", int64(binary.LittleEndian.Uint64(sb[88:96]))}}
		best, bat := "data", int64(-1)
		for _, t := range ts {
			if t.at >= 0 && t.at <= off && t.at > bat && t.at < b.Size {
				best, bat = t.name, t.at
			}
		}
		return best
	}
	return "?"
}

type c18Pos struct {
	off int64
}

// c18Positions records the device reads of a clean walk and returns the consumed byte
// ranges, reduced to the neighbourhood of non-zero bytes (free FAT entries, zeroed
// directory tails and unused inode space are not fields of anything).
func c18Positions(b c18Base, d *memdev.Dev) (consumed []memdev.Range, cleanNodes int, err error) {
	var mu sync.Mutex
	var rs, inFile, dataRanges []memdev.Range
	reading := false
	d.ReadHook = func(off int64, n int) {
		mu.Lock()
		if reading {
			inFile = append(inFile, memdev.Range{Off: off, Len: int64(n)})
		} else {
			rs = append(rs, memdev.Range{Off: off, Len: int64(n)})
		}
		mu.Unlock()
	}
	// device reads made while a file's content is delivered are file DATA (not a field of any
	// structure) when the bytes at that device range occur in the delivered content
	c18OnFile := func(begin bool, data []byte) {
		mu.Lock()
		defer mu.Unlock()
		if begin {
			reading, inFile = true, nil
			return
		}
		reading = false
		for _, x := range inFile {
			raw := d.Bytes(x.Off, x.Len)
			probe := raw
			if len(probe) > 48 {
				probe = probe[:48]
			}
			if len(raw) >= 16 && bytes.Contains(data, probe) {
				dataRanges = append(dataRanges, x)
			} else {
				rs = append(rs, x)
			}
		}
	}
	r := c18WalkObs(b.Kind, d, b, c18OnFile)
	d.ReadHook = nil
	if r.Out != "ok" {
		return nil, 0, fmt.Errorf("clean walk of base %s: %s %s", b.ID, r.Out, r.Detail)
	}
	rs = memdev.Merge(rs)
	var out []memdev.Range
	for _, x := range rs {
		if x.Off+x.Len > b.Size {
			x.Len = b.Size - x.Off
		}
		if x.Len <= 0 {
			continue
		}
		data := d.Bytes(x.Off, x.Len)
		// 16-byte cells with any non-zero byte, plus the cell after a non-zero cell
		prev := false
		for c := int64(0); c < x.Len; c += 16 {
			e := c + 16
			if e > x.Len {
				e = x.Len
			}
			nz := false
			for _, y := range data[c:e] {
				if y != 0 {
					nz = true
					break
				}
			}
			isData := false
			for _, dr := range dataRanges {
				if x.Off+c >= dr.Off && x.Off+e <= dr.Off+dr.Len {
					isData = true
					break
				}
			}
			if (nz || prev) && !isData {
				out = append(out, memdev.Range{Off: x.Off + c, Len: e - c})
			}
			prev = nz
		}
	}
	return memdev.Merge(out), r.Nodes, nil
}

func C18(c *core.Ctx) {
	c.Level = "fault_enumeration"
	c.Rule = "case = one (base image, field position, width, value class): base images FAT12/16/32 and ext4 written by the library (nested directories, long names, two files grown alternately, fast and slow symlinks), an ext4 image built by mke2fs (hash-indexed directory, extent tree with an index node, xattr block), ISO9660+Rock Ridge and squashfs images finalized by the library; positions = EVERY aligned 1/2/4-byte word among the bytes the reader consumes during a clean open + full walk (device reads recorded, reduced to the neighbourhood of non-zero bytes) and every in-use FAT entry; value classes of Corrupt.tla (zero, one, all ones, top bit, +1, -1, doubled, bit flips, own sector/block number, image size; FAT: free, 1, self, chain head, predecessor, past the end, EOC, bad); enumerated by TLC x positions, each executed in a child process; non-trivial = every case changes at least one consumed byte (distinct key = base/offset/width/class)"
	c.Assumptions = []string{"child processes with ulimit -v 4 GiB; a position whose classes do not answer within the deadline is re-run class by class", "time bound 4 s of CPU time per case (wall-clock backstop 90 s), allocation bound 64 MiB + 16 x image size (runtime TotalAlloc delta around open + walk)", "the walker caps depth (12), nodes (3000) and bytes read per file (2 x image size): a damaged image may describe an endless tree", "quick tier: widths 1 and 4 at every position with a reduced class set, FAT classes complete; thorough: everything"}
	work, err := os.MkdirTemp("", "c18")
	if err != nil {
		c.Broken("tmp: %v", err)
		return
	}
	defer os.RemoveAll(work)
	bases := []string{"fat12", "fat16", "fat32", "ext4", "ext4m", "iso", "squashfs"}
	if e := os.Getenv("C18_BASES"); e != "" {
		bases = strings.Split(e, ",") // debugging aid: restrict the base images
	}
	devs := map[string]*memdev.Dev{}
	consumed := map[string][]memdev.Range{}
	var bmu sync.Mutex
	berr := make([]error, len(bases))
	parallel(len(bases), func(i int) {
		id := bases[i]
		if err := c18BuildBase(id, work); err != nil {
			berr[i] = err
			return
		}
		d, err := memdev.Load(filepath.Join(work, id+".img"))
		if err != nil {
			berr[i] = err
			return
		}
		rs, _, err := c18Positions(c18Kinds[id], d)
		bmu.Lock()
		devs[id], consumed[id] = d, rs
		bmu.Unlock()
		berr[i] = err
	})
	for i, e := range berr {
		if e != nil {
			c.Broken("base %s: %v", bases[i], e)
			return
		}
	}
	if dbg := os.Getenv("C18_DEBUG"); dbg != "" { // base:off:width:class - run one case in-process and print what happens
		f := strings.Split(dbg, ":")
		b := c18Kinds[f[0]]
		d := devs[f[0]]
		off, _ := strconv.ParseInt(f[1], 10, 64)
		w, _ := strconv.Atoi(f[2])
		orig := d.Bytes(off, int64(w))
		nb, _ := c18Value(f[3], w, orig, off, b, 0)
		fmt.Printf("orig % x new % x context % x\n", orig, nb, d.Bytes(off/32*32, 32))
		d.Poke(off, nb)
		var m0, m1 runtime.MemStats
		runtime.ReadMemStats(&m0)
		c18Trace = true
		r := c18Walk(b.Kind, d, b)
		runtime.ReadMemStats(&m1)
		fmt.Printf("result %+v alloc %d MiB mallocs %d\n", r, (m1.TotalAlloc-m0.TotalAlloc)>>20, m1.Mallocs-m0.Mallocs)
		return
	}
	quick := c.Tier != "thorough"
	quoted := make([]string, len(bases))
	for i, b := range bases {
		quoted[i] = `"` + b + `"`
	}
	type key struct {
		base, w, cls string
	}
	type agg struct {
		n                int
		outcomes         map[string]bool
		worstMs, worstMB int64
		bad              []map[string]any
	}
	aggs := map[key]*agg{}
	var amu sync.Mutex
	posCount := map[string]int{}
	ts := tupleSpace{GenModule: "Corrupt_Gen", GenCfg: fmt.Sprintf("SPECIFICATION Spec\nCONSTANT Bases = {%s}\nINVARIANT Emit\nCHECK_DEADLOCK FALSE\n", strings.Join(quoted, ", ")),
		TraceModule: "Corrupt_Trace", TraceCfg: "Corrupt_Trace.cfg",
		ExecAll: func(tuples []map[string]any) []map[string]any {
			// classes wanted per (base, width)
			want := map[[2]string][]string{}
			for _, t := range tuples {
				k := [2]string{str(t, "base"), str(t, "w")}
				want[k] = append(want[k], str(t, "cls"))
				aggs[key{str(t, "base"), str(t, "w"), str(t, "cls")}] = &agg{outcomes: map[string]bool{}}
			}
			var jobs []map[string]any
			for _, id := range bases {
				b := c18Kinds[id]
				tablen := 0
				if strings.HasPrefix(b.Kind, "fat") {
					if v, err := rawfat.Parse(devs[id], 0, b.Size); err == nil {
						bits := map[string]int64{"fat12": 12, "fat16": 16, "fat32": 32}[v.Type]
						tablen = int(v.FATSectors * int64(v.BPS) * 8 / bits)
					}
				}
				for _, w := range []int{1, 2, 4} {
					cls := want[[2]string{id, strconv.Itoa(w)}]
					if quick {
						if w == 2 {
							continue
						}
						var red []string
						for _, x := range cls {
							if w == 4 || x == "zero" || x == "four" || x == "ones" || x == "inc" || x == "flip7" {
								red = append(red, x)
							}
						}
						cls = red
					}
					sort.Strings(cls)
					for _, r := range consumed[id] {
						step := int64(w)
						if !quick {
							step = 1 // thorough: every byte offset, fields need not be aligned (ISO9660 records)
						}
						for off := (r.Off + step - 1) / step * step; off+int64(w) <= r.Off+r.Len; off += step {
							jobs = append(jobs, map[string]any{"dir": work, "base": id, "off": off, "w": strconv.Itoa(w), "classes": cls, "tablen": tablen})
							posCount[id+"/"+strconv.Itoa(w)]++
						}
					}
				}
				if cls := want[[2]string{id, "fat"}]; len(cls) > 0 {
					v, err := rawfat.Parse(devs[id], 0, b.Size)
					if err != nil {
						c.Broken("rawfat on base %s: %v", id, err)
						continue
					}
					bits := map[string]int{"fat12": 12, "fat16": 16, "fat32": 32}[v.Type]
					var fatOffs []any
					for k := 0; k < v.NumFATs; k++ {
						fatOffs = append(fatOffs, int64(v.Reserved)*int64(v.BPS)+int64(k)*v.FATSectors*int64(v.BPS))
					}
					eoc := map[int]uint32{12: 0xFFF, 16: 0xFFFF, 32: 0x0FFFFFFF}[bits]
					chains := [][]uint32{v.RootChain}
					for _, e := range v.Entries {
						chains = append(chains, e.Chain)
					}
					seen := map[uint32]bool{}
					for _, ch := range chains {
						for i, cl := range ch {
							if seen[cl] || cl < 2 {
								continue
							}
							seen[cl] = true
							vals := map[string]any{"f-free": 0, "f-one": 1, "f-self": cl, "f-head": ch[0], "f-past": uint32(v.DataClusters + 2), "f-tablen": uint32(v.FATSectors * int64(v.BPS) * 8 / int64(bits)), "f-eoc": eoc, "f-bad": eoc - 8}
							if i > 0 {
								vals["f-prev"] = ch[i-1]
							}
							jobs = append(jobs, map[string]any{"dir": work, "base": id, "off": int64(cl), "w": "fat", "cluster": cl, "bits": bits, "fatoffs": fatOffs, "vals": vals})
							posCount[id+"/fat"]++
						}
					}
				}
			}
			record := func(job, r map[string]any) {
				results := toStrMap(r["results"])
				for cls, rv := range results {
					m := toStrMap(rv)
					a := aggs[key{str(job, "base"), str(job, "w"), cls}]
					if a == nil {
						continue
					}
					out := str(m, "out")
					if out == "same" {
						continue
					}
					ms, mb := int64(m["ms"].(float64)), int64(m["alloc_mb"].(float64))
					if pk := int64(m["peak_mb"].(float64)); pk > mb {
						mb = pk
					}
					amu.Lock()
					a.n++
					a.outcomes[out] = true
					if ms > a.worstMs {
						a.worstMs = ms
					}
					if mb > a.worstMB {
						a.worstMB = mb
					}
					b := c18Kinds[str(job, "base")]
					if (out != "ok" && out != "error") || ms > 4000 || mb > 64+16*(b.Size>>20) {
						a.bad = append(a.bad, map[string]any{"base": b.ID, "off": job["off"], "w": job["w"], "cls": cls, "out": out, "detail": m["detail"], "site": m["site"], "ms": ms, "alloc_mb": mb})
					}
					amu.Unlock()
				}
			}
			classesOf := func(j map[string]any) []string {
				var cs []string
				if str(j, "w") == "fat" {
					for k := range toStrMap(j["vals"]) {
						cs = append(cs, k)
					}
				} else {
					cs = append(cs, j["classes"].([]string)...)
				}
				sort.Strings(cs)
				return cs
			}
			restrict := func(j map[string]any, cs []string) map[string]any {
				nj := map[string]any{}
				for k, x := range j {
					nj[k] = x
				}
				if str(j, "w") == "fat" {
					vals := map[string]any{}
					for _, c := range cs {
						vals[c] = toStrMap(j["vals"])[c]
					}
					nj["vals"] = vals
				} else {
					nj["classes"] = cs
				}
				return nj
			}
			pending := jobs
			for round := 0; len(pending) > 0 && round < 40; round++ {
				res := runChildren("c18", pending, 300*time.Second, 4<<20, 14)
				var next []map[string]any
				for i, r := range res {
					j := pending[i]
					switch str(r, "out") {
					case "done":
						record(j, r)
						// classes left over after a hang
						got := toStrMap(r["results"])
						var rest []string
						for _, c := range classesOf(j) {
							if _, ok := got[c]; !ok {
								rest = append(rest, c)
							}
						}
						if len(rest) > 0 {
							next = append(next, restrict(j, rest))
						}
					case "infra":
						c.Broken("child infrastructure: %v", r["detail"])
					default:
						// the child died (fatal error, address space) or did not answer: class by class
						cs := classesOf(j)
						if len(cs) > 1 {
							for _, c := range cs {
								next = append(next, restrict(j, []string{c}))
							}
							continue
						}
						a := aggs[key{str(j, "base"), str(j, "w"), cs[0]}]
						if a == nil {
							continue
						}
						a.n++
						a.outcomes[str(r, "out")] = true
						a.bad = append(a.bad, map[string]any{"base": str(j, "base"), "off": j["off"], "w": j["w"], "cls": cs[0], "out": str(r, "out"), "detail": trunc(str(r, "detail")), "site": "", "ms": int64(0), "alloc_mb": int64(0)})
					}
				}
				fmt.Printf("C18 round %d: %d jobs, %d to re-run\n", round, len(pending), len(next))
				pending = next
			}
			evs := make([]map[string]any, len(tuples))
			for i, t := range tuples {
				a := aggs[key{str(t, "base"), str(t, "w"), str(t, "cls")}]
				outs := []string{}
				for o := range a.outcomes {
					outs = append(outs, o)
				}
				sort.Strings(outs)
				evs[i] = map[string]any{"n": a.n, "outcomes": outs, "worst_ms": a.worstMs, "worst_alloc_mb": a.worstMB, "image_mb": c18Kinds[str(t, "base")].Size >> 20, "nbad": len(a.bad)}
			}
			return evs
		},
		Keep: func(ev map[string]any) bool { return ev["n"].(int) > 0 },
		FailFn: func(c *core.Ctx, t, ev map[string]any, detail string) {
			a := aggs[key{str(t, "base"), str(t, "w"), str(t, "cls")}]
			for _, bad := range a.bad {
				b := c18Kinds[str(bad, "base")]
				off := bad["off"].(int64)
				region := "fat"
				if str(bad, "w") != "fat" {
					region = c18Region(b, devs[b.ID], off)
				}
				out := str(bad, "out")
				var sig string
				switch {
				case out == "panic":
					sig = fmt.Sprintf("corrupt-%s-panic-%s", b.Kind, str(bad, "site"))
				case out == "ok" || out == "error":
					if bad["ms"].(int64) > 4000 {
						sig = fmt.Sprintf("corrupt-%s-slow-%s", b.Kind, region)
					} else {
						sig = fmt.Sprintf("corrupt-%s-allocation-%s", b.Kind, region)
					}
				default:
					sig = fmt.Sprintf("corrupt-%s-%s-%s", b.Kind, out, region)
				}
				bad["region"] = region
				c.Fail([]string{sig}, fmt.Sprintf("%s image, %s field at offset %d (%s, width %s) set to class %s: %s %v (%d ms, %d MiB allocated)", b.ID, region, off, region, str(bad, "w"), str(bad, "cls"), out, bad["detail"], bad["ms"], bad["alloc_mb"]), bad)
			}
		},
		NonTrivial: func(t, ev map[string]any) bool { return true },
	}
	ts.run(c)
	total := int64(0)
	for _, a := range aggs {
		total += int64(a.n)
	}
	c.Evaluations = total
	c.Extra["positions"] = posCount
	c.Extra["cases"] = total
	fmt.Printf("C18 positions: %v cases=%d\n", posCount, total)
}
