package props

import (
	"bytes"
	"fmt"
	"io"
	iofs "io/fs"
	"os"
	"path"
	"path/filepath"
	"sort"
	"strings"
	"testing/fstest"
	"time"

	"github.com/diskfs/go-diskfs/filesystem"
	"github.com/diskfs/go-diskfs/filesystem/iso9660"
	dsync "github.com/diskfs/go-diskfs/sync"

	"verif/harness/internal/core"
	"verif/harness/internal/fsx"
)

// C16 — CopyFileSystem copies faithfully and CompareFS tells the truth (SyncCopy.tla).

// shortFS wraps an fs.FS so that every Read delivers at most 1000 bytes (legal for an
// io.Reader): equal files must still compare equal.
type shortFS struct{ iofs.FS }
type shortFile struct{ iofs.File }

func (s shortFS) Open(name string) (iofs.File, error) {
	f, err := s.FS.Open(name)
	if err != nil {
		return nil, err
	}
	return shortFile{f}, nil
}
func (f shortFile) Read(p []byte) (int, error) {
	if len(p) > 1000 {
		p = p[:1000]
	}
	return f.File.Read(p)
}
func (f shortFile) ReadDir(n int) ([]iofs.DirEntry, error) {
	if d, ok := f.File.(iofs.ReadDirFile); ok {
		return d.ReadDir(n)
	}
	return nil, fmt.Errorf("not a directory")
}

func c16Tree(cls string) []fsx.Entry {
	f := func(p string, tag, n int) fsx.Entry { return fsx.Entry{Path: p, Data: fsx.Content(tag, n)} }
	switch cls {
	case "small":
		return []fsx.Entry{f("ALPHA.TXT", 1, 10), f("empty.dat", 2, 0), {Path: "EMPTYDIR", Dir: true}, {Path: "DIR", Dir: true}, f("DIR/inner.bin", 3, 513)}
	case "buffers": // sizes around the 32 KiB compare/copy buffers
		return []fsx.Entry{f("b0.bin", 1, 32767), f("b1.bin", 2, 32768), f("b2.bin", 3, 32769), f("b3.bin", 4, 70000), f("b4.bin", 5, 1), {Path: "EMPTYDIR", Dir: true}, {Path: "DIR", Dir: true}, f("DIR/b5.bin", 6, 65536)}
	case "nested":
		return []fsx.Entry{{Path: "one", Dir: true}, {Path: "one/two", Dir: true}, {Path: "one/two/three", Dir: true}, f("one/two/three/deep file.txt", 1, 2000), f("one/x.y", 2, 3), f("top level file with a long name.data", 3, 5000), {Path: "EMPTYDIR", Dir: true}, {Path: "DIR", Dir: true}, f("DIR/z", 4, 100)}
	case "nearmiss": // names that only resemble the documented excluded names (other case, a suffix): they are ordinary entries
		return []fsx.Entry{f("keep.txt", 1, 100), {Path: "Lost+Found", Dir: true}, f("Lost+Found/ticket.txt", 2, 50), f(".ds_store", 3, 20), {Path: "DIR", Dir: true}, f("DIR/.DS_Store.bak", 4, 10), f("DIR/kept.bin", 5, 700),
			{Path: "DIR/system volume information", Dir: true}, f("DIR/system volume information/x", 6, 5), f("lost+found.txt", 7, 9), {Path: "EMPTYDIR", Dir: true}}
	default: // excluded names at the top and nested, as file and as directory
		return []fsx.Entry{f("keep.txt", 1, 100), {Path: "lost+found", Dir: true}, f("lost+found/orphan", 2, 50), f(".DS_Store", 3, 20), {Path: "DIR", Dir: true}, f("DIR/.DS_Store", 4, 10), f("DIR/kept.bin", 5, 700),
			{Path: "DIR/System Volume Information", Dir: true}, f("DIR/System Volume Information/x", 6, 5), {Path: "EMPTYDIR", Dir: true}}
	}
}

var c16Excluded = map[string]bool{"lost+found": true, ".DS_Store": true, "System Volume Information": true}

func c16Strip(es []fsx.Entry) []fsx.Entry {
	var out []fsx.Entry
	for _, e := range es {
		skip := false
		for _, c := range strings.Split(e.Path, "/") {
			if c16Excluded[c] {
				skip = true
			}
		}
		if !skip {
			out = append(out, e)
		}
	}
	return out
}

// c16Source builds the source filesystem of the given kind holding entries.
func c16Source(kind string, entries []fsx.Entry, work string) (iofs.FS, func(), error) {
	cleanup := func() {}
	switch kind {
	case "osdir", "shortreads":
		dir, err := os.MkdirTemp(work, "src")
		if err != nil {
			return nil, cleanup, err
		}
		cleanup = func() { os.RemoveAll(dir) }
		for _, e := range entries {
			p := filepath.Join(dir, filepath.FromSlash(e.Path))
			if e.Dir {
				os.MkdirAll(p, 0o755)
				continue
			}
			os.MkdirAll(filepath.Dir(p), 0o755)
			if err := os.WriteFile(p, e.Data, 0o644); err != nil {
				return nil, cleanup, err
			}
		}
		if kind == "shortreads" {
			return shortFS{os.DirFS(dir)}, cleanup, nil
		}
		return os.DirFS(dir), cleanup, nil
	case "fat32", "ext4":
		v, err := fsx.CreateMutable(kind, fsx.Opt{Size: 40 << 20})
		if err != nil {
			return nil, cleanup, err
		}
		if err := fsx.Populate(v.FS, entries); err != nil {
			return nil, cleanup, err
		}
		return v.FS, cleanup, nil
	case "iso":
		v, err := fsx.BuildImage("iso", entries, fsx.Opt{Size: 64 << 20, IsoOpts: &iso9660.FinalizeOptions{RockRidge: true}})
		if err != nil {
			return nil, cleanup, err
		}
		return v.FS, cleanup, nil
	case "squashfs":
		v, err := fsx.BuildImage("squashfs", entries, fsx.Opt{Size: 64 << 20})
		if err != nil {
			return nil, cleanup, err
		}
		return v.FS, cleanup, nil
	}
	return nil, cleanup, fmt.Errorf("unknown source kind %s", kind)
}

func c16Diff(want []fsx.Entry, dst filesystem.FileSystem) (int, string) {
	got, err := fsx.Walk(dst, 128<<20)
	if err != nil {
		return 999, "walk: " + err.Error()
	}
	diffs := 0
	first := ""
	note := func(s string) {
		diffs++
		if first == "" {
			first = s
		}
	}
	wantM := map[string]fsx.Entry{}
	for _, e := range want {
		wantM[e.Path] = e
		for d := path.Dir(e.Path); d != "." && d != "/"; d = path.Dir(d) {
			if _, ok := wantM[d]; !ok {
				wantM[d] = fsx.Entry{Path: d, Dir: true}
			}
		}
	}
	for p, e := range wantM {
		n, ok := got[p]
		switch {
		case !ok:
			note("missing " + p)
		case e.Dir != (n.Kind == "dir"):
			note("kind of " + p)
		case !e.Dir && (n.Err != "" || !bytes.Equal(n.Data, e.Data)):
			note(fmt.Sprintf("content of %s (%d bytes, want %d; %s)", p, len(n.Data), len(e.Data), n.Err))
		}
	}
	for p := range got {
		if _, ok := wantM[p]; !ok {
			note("extra " + p)
		}
	}
	return diffs, first
}

// c16Mutate applies one single-point mutation to the copy; returns false if the mutation
// cannot be applied to this destination/tree (then the compare step is skipped).
func c16Mutate(dst filesystem.FileSystem, mut string, tree []fsx.Entry) (bool, error) {
	var file fsx.Entry // a file of at least 32769 bytes if there is one, else the largest
	for _, e := range tree {
		if !e.Dir && len(e.Data) > len(file.Data) {
			file = e
		}
	}
	rewrite := func(p string, data []byte) error {
		dst.Remove(p) // ext4 has no truncating open: replace the file
		return fsx.WriteFile(dst, p, data)
	}
	patch := func(off int) (bool, error) {
		if off >= len(file.Data) || off < 0 {
			return false, nil
		}
		d := append([]byte(nil), file.Data...)
		d[off] ^= 0x01
		return true, rewrite(file.Path, d)
	}
	switch mut {
	case "none":
		return true, nil
	case "byte-first":
		return patch(0)
	case "byte-last":
		return patch(len(file.Data) - 1)
	case "byte-at-32k":
		return patch(32768)
	case "longer":
		return true, rewrite(file.Path, append(append([]byte(nil), file.Data...), 'x'))
	case "shorter":
		if len(file.Data) == 0 {
			return false, nil
		}
		return true, rewrite(file.Path, file.Data[:len(file.Data)-1])
	case "missing-file":
		return true, dst.Remove(file.Path)
	case "extra-file":
		return true, rewrite("EXTRA.NEW", []byte("extra"))
	case "file-for-dir":
		if err := dst.Remove("EMPTYDIR"); err != nil {
			return true, err
		}
		return true, rewrite("EMPTYDIR", []byte("now a file"))
	case "dir-for-file":
		if err := dst.Remove(file.Path); err != nil {
			return true, err
		}
		return true, dst.Mkdir(file.Path)
	case "missing-empty-dir":
		return true, dst.Remove("EMPTYDIR")
	case "extra-empty-dir":
		return true, dst.Mkdir("EXTRADIR")
	case "extra-excluded-file":
		return true, rewrite("DIR/.DS_Store", []byte("finder droppings"))
	case "extra-after-excluded-file":
		// the target directory holds an excluded-name file AND a real extra entry that sorts after it
		if err := rewrite("DIR/.DS_Store", []byte("finder droppings")); err != nil {
			return true, err
		}
		return true, rewrite("DIR/zz-extra.new", []byte("extra"))
	case "extra-dir-after-excluded-file":
		if err := rewrite(".DS_Store", []byte("finder droppings")); err != nil {
			return true, err
		}
		if err := dst.Mkdir("zz-extra-dir"); err != nil {
			return true, err
		}
		return true, rewrite("zz-extra-dir/inside", []byte("extra"))
	case "extra-excluded-dir":
		// inside DIR: no tree has an entry there whose name differs from lost+found only in case (on a
		// case-insensitive destination that would be the same directory, and not an excluded one)
		if err := dst.Mkdir("DIR/lost+found"); err != nil {
			return true, err
		}
		return true, rewrite("DIR/lost+found/recovered", []byte("#12"))
	}
	return false, fmt.Errorf("unknown mutation %s", mut)
}

func c16Exec(t map[string]any, idx int) map[string]any {
	ev := map[string]any{"copy": "ok", "diff": 0, "cmp0": "nil", "cmp1": "skipped"}
	work := os.Getenv("TMPDIR")
	tree := c16Tree(str(t, "tree"))
	src, cleanup, err := c16Source(str(t, "src"), tree, work)
	defer cleanup()
	if err != nil {
		ev["copy"], ev["setup"] = "err", "source: "+err.Error()
		return ev
	}
	dstKind := str(t, "dst")
	dv, err := fsx.CreateMutable(dstKind, fsx.Opt{})
	if err != nil {
		ev["copy"], ev["setup"] = "err", "destination: "+err.Error()
		return ev
	}
	var cerr error
	if p := fsx.Catch(func() { cerr = dsync.CopyFileSystem(src, dv.FS) }); p != "" {
		ev["copy"], ev["detail"] = "panic", p
		return ev
	}
	if cerr != nil {
		ev["copy"], ev["detail"] = "err", cerr.Error()
		return ev
	}
	want := c16Strip(tree)
	n, first := c16Diff(want, dv.FS)
	ev["diff"] = n
	if first != "" {
		ev["firstdiff"] = first
	}
	cmp := func() string {
		var err error
		if p := fsx.Catch(func() { err = dsync.CompareFS(src, dv.FS) }); p != "" {
			return "panic"
		}
		if err != nil {
			ev["cmperr"] = err.Error()
			return "err"
		}
		return "nil"
	}
	done := make(chan string, 1)
	go func() { done <- cmp() }()
	select {
	case r := <-done:
		ev["cmp0"] = r
	case <-time.After(60 * time.Second):
		ev["cmp0"] = "hang"
		return ev
	}
	if n != 0 || ev["cmp0"] != "nil" {
		return ev
	}
	applied, merr := c16Mutate(dv.FS, str(t, "mut"), want)
	if merr != nil {
		ev["mutation_error"] = merr.Error() // the destination refused the mutation: nothing to compare
		return ev
	}
	if !applied {
		return ev
	}
	delete(ev, "cmperr")
	go func() { done <- cmp() }()
	select {
	case r := <-done:
		ev["cmp1"] = r
	case <-time.After(60 * time.Second):
		ev["cmp1"] = "hang"
	}
	return ev
}

func C16(c *core.Ctx) {
	c.Rule = "case = (source type {os dir, fat32, ext4, iso9660+RockRidge, squashfs, fs.FS with short reads} x destination {fat12, fat16, fat32, ext4} x tree class {small, sizes around the 32 KiB buffers, nested, excluded names at several depths} x mutation of the copy {none, byte first/last/at 32 KiB, longer, shorter, missing/extra file, file<->directory, missing/extra empty dir, extra excluded file/dir}), tuples within MaxDev deviations of the base (quick 2, thorough 4 = full), enumerated by TLC; non-trivial = copy succeeded and the mutation could be applied (distinct key = tuple)"
	c.Assumptions = []string{"harness tree diff (fsx.Walk of the destination vs the source entries without excluded names) is the measurement of copy fidelity", "symlinks are not part of the trees (FAT destinations cannot hold them)", "the > 64 MiB streaming path is exercised in the thorough tier with one synthetic 64 MiB + 1 file"}
	mc, err := tlcRun("SyncCopy", "SyncCopy_MC.cfg")
	if err != nil || !mc.OK {
		c.Broken("SyncCopy MC: %v", err)
		return
	}
	maxDev := 2
	if c.Tier == "thorough" {
		maxDev = 4
	}
	ts := tupleSpace{GenModule: "SyncCopy_Gen", GenCfg: fmt.Sprintf("SPECIFICATION GSpec\nCONSTANTS\n  MaxDev = %d\n  Names = {\"a\"}\n  Contents = {1}\nINVARIANT Emit\nCHECK_DEADLOCK FALSE\n", maxDev),
		TraceModule: "SyncCopy_Trace", TraceCfg: "SyncCopy_Trace.cfg", Exec: c16Exec,
		NonTrivial: func(t, ev map[string]any) bool { return ev["copy"] == "ok" && ev["cmp1"] != "skipped" },
		Sig: func(t, ev map[string]any, detail string) ([]string, string) {
			sig := "sync-"
			switch {
			case ev["copy"] != "ok":
				sig += fmt.Sprintf("copy-%v-%s-to-%s", ev["copy"], str(t, "src"), str(t, "dst"))
			case ev["diff"] != 0:
				sig += fmt.Sprintf("copy-unfaithful-%s-to-%s", str(t, "src"), str(t, "dst"))
			case ev["cmp0"] != "nil":
				sig += fmt.Sprintf("compare-reports-difference-on-faithful-copy-%s-vs-%s", str(t, "src"), str(t, "dst"))
			default:
				sig += fmt.Sprintf("compare-%v-after-%s", ev["cmp1"], str(t, "mut"))
			}
			brief := map[string]any{}
			for k, v := range ev {
				if k != "shape" {
					brief[k] = v
				}
			}
			return []string{sig}, fmt.Sprintf("sync %s: %s", js(t), trunc(brief))
		}}
	tuples, events := ts.run(c)
	c.States += mc.Distinct
	c.Transitions += mc.Generated
	applied := 0
	for i, e := range events {
		if e["setup"] != nil {
			c.Broken("setup failed for %s: %v", js(tuples[i]), e["setup"])
		}
		if e["cmp1"] != "skipped" {
			applied++
		}
	}
	c.Extra["mutations_applied"] = applied
	if applied == 0 {
		c.Broken("no mutation could be applied (vacuous)")
	}
	c16Big(c)
}

// eofFS serves one large file whose final Read returns the last bytes TOGETHER with io.EOF
// (as the library's own ext4 and iso9660 handles do) - both conventions are legal.
type eofFS struct {
	name string
	data []byte
}
type eofFile struct {
	fs  *eofFS
	pos int
}
type eofInfo struct {
	name string
	size int64
	dir  bool
}

func (i eofInfo) Name() string       { return i.name }
func (i eofInfo) Size() int64        { return i.size }
func (i eofInfo) Mode() iofs.FileMode {
	if i.dir {
		return iofs.ModeDir | 0o755
	}
	return 0o644
}
func (i eofInfo) ModTime() time.Time { return time.Unix(1700000000, 0) }
func (i eofInfo) IsDir() bool        { return i.dir }
func (i eofInfo) Sys() any           { return nil }
func (i eofInfo) Type() iofs.FileMode { return i.Mode().Type() }
func (i eofInfo) Info() (iofs.FileInfo, error) { return i, nil }

type eofDir struct{ fs *eofFS }

func (d eofDir) Stat() (iofs.FileInfo, error) { return eofInfo{".", 0, true}, nil }
func (d eofDir) Read([]byte) (int, error)     { return 0, fmt.Errorf("is a directory") }
func (d eofDir) Close() error                 { return nil }
func (d eofDir) ReadDir(n int) ([]iofs.DirEntry, error) {
	return []iofs.DirEntry{eofInfo{d.fs.name, int64(len(d.fs.data)), false}}, nil
}
func (f *eofFS) Open(name string) (iofs.File, error) {
	if name == "." {
		return eofDir{f}, nil
	}
	if name != f.name {
		return nil, iofs.ErrNotExist
	}
	return &eofFile{fs: f}, nil
}
func (f *eofFile) Stat() (iofs.FileInfo, error) { return eofInfo{f.fs.name, int64(len(f.fs.data)), false}, nil }
func (f *eofFile) Close() error                 { return nil }
func (f *eofFile) Read(p []byte) (int, error) {
	n := copy(p, f.fs.data[f.pos:])
	f.pos += n
	if f.pos >= len(f.fs.data) {
		return n, io.EOF // final bytes and EOF in one call
	}
	return n, nil
}

// c16Big: one file one byte over the 64 MiB streaming threshold, generated on the fly.
func c16Big(c *core.Ctx) {
	n := 64<<20 + 1
	data := fsx.Content(9, n)
	srcs := map[string]iofs.FS{"mapfs": fstest.MapFS{"big.bin": &fstest.MapFile{Data: data}, "small.txt": &fstest.MapFile{Data: []byte("x")}}, "eof-with-data": &eofFS{"big.bin", data}}
	kinds := []string{"fat32", "ext4"}
	if c.Tier != "thorough" {
		kinds = []string{"fat32"}
	}
	for sname, src := range srcs {
	for _, kind := range kinds {
		dv, err := fsx.CreateMutable(kind, fsx.Opt{Size: 200 << 20})
		if err != nil {
			c.Broken("c16Big %s: %v", kind, err)
			continue
		}
		var cerr error
		p := fsx.Catch(func() { cerr = dsync.CopyFileSystem(src, dv.FS) })
		ok := p == "" && cerr == nil
		if ok {
			f, err := dv.FS.OpenFile("big.bin", os.O_RDONLY)
			if err != nil {
				ok = false
			} else {
				got, _ := io.ReadAll(f)
				f.Close()
				ok = bytes.Equal(got, data)
			}
		}
		c.AddEval(1)
		c.Distinct("big-" + sname + "-" + kind)
		if !ok {
			c.Fail([]string{"sync-streaming-copy-over-64MiB-" + sname + "-" + kind}, fmt.Sprintf("copy of a 64 MiB + 1 byte file from %s to %s: panic=%q err=%v or content differs", sname, kind, p, cerr), map[string]any{"src": sname, "dst": kind, "size": n})
		}
	}
	}
}

var _ = sort.Strings
