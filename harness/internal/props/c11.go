package props

import (
	"bytes"
	"crypto/sha256"
	"encoding/json"
	"errors"
	"fmt"
	"io"
	"os"
	"path/filepath"
	"sort"
	"strings"
	"sync"
	"time"

	diskfs "github.com/diskfs/go-diskfs"
	"github.com/diskfs/go-diskfs/backend"
	"github.com/diskfs/go-diskfs/backend/file"
	"github.com/diskfs/go-diskfs/disk"
	"github.com/diskfs/go-diskfs/filesystem"
	"github.com/diskfs/go-diskfs/partition"
	"github.com/diskfs/go-diskfs/partition/gpt"
	"github.com/diskfs/go-diskfs/partition/mbr"

	"verif/harness/internal/core"
	"verif/harness/internal/fsx"
	"verif/harness/internal/memdev"
	"verif/harness/internal/rawfat"
	"verif/harness/internal/tlc"
)

// C11 — read-only access never modifies the image (ReadOnly.tla).

// noWritable is a backend whose Writable() fails while the storage below would accept writes.
type noWritable struct{ backend.Storage }

func (n noWritable) Writable() (backend.WritableFile, error) {
	return nil, errors.New("verif: this backend is not writable")
}

type c11Base struct {
	obj   string
	dev   *memdev.Dev
	size  int64
	sect  int64
	path  string // the same image as a real file (route ropath)
	fsObj bool
}

var c11Sizes = map[string]int64{"fat12": 1 << 20, "fat16": 5 << 20, "fat32": 34 << 20, "ext4": 20 << 20, "iso": 2 << 20, "squashfs": 1 << 20}

func c11Entries(links bool) []fsx.Entry {
	es := []fsx.Entry{{Path: "a.txt", Data: fsx.Content(1, 700)}, {Path: "dir", Dir: true}, {Path: "dir/b.bin", Data: fsx.Content(2, 3000)}, {Path: "other", Data: fsx.Content(3, 10)}}
	if links {
		es = append(es, fsx.Entry{Path: "lnk", Link: "a.txt"})
	}
	return es
}

func c11Build(obj, dir string) (*c11Base, error) {
	b := &c11Base{obj: obj, sect: 512}
	switch obj {
	case "fat12", "fat16", "fat32", "ext4", "fat16x":
		kind := strings.TrimSuffix(obj, "x")
		v, err := fsx.CreateMutable(kind, fsx.Opt{Size: c11Sizes[kind], Label: "VERIF"})
		if err != nil {
			return nil, err
		}
		es := append(c11Entries(obj == "ext4"), fsx.Entry{Path: "EMPTY.DAT"})
		if err := fsx.Populate(v.FS, es); err != nil {
			return nil, err
		}
		if obj == "fat16x" {
			// the form other tools (mkfs.fat, mtools, Linux vfat) give an empty file: size 0, first cluster 0,
			// no cluster allocated - the library's own writer always allocates one
			if err := c11ForeignEmpty(v.Dev, v.Size); err != nil {
				return nil, fmt.Errorf("foreign-form empty file: %w", err)
			}
		}
		b.dev, b.size, b.fsObj = v.Dev, v.Size, true
		b.dev.SetSize(b.size)
	case "iso", "squashfs":
		v, err := fsx.BuildImage(obj, c11Entries(true), fsx.Opt{Size: c11Sizes[obj]})
		if err != nil {
			return nil, err
		}
		b.dev, b.size, b.sect, b.fsObj = v.Dev, v.Size, v.Sector, true
		b.dev.SetSize(b.size)
	case "gpt", "mbr", "gptbad", "mbrshort":
		size := int64(100 << 20)
		d := memdev.New(size)
		dk, err := diskfs.OpenBackend(file.New(d, false), diskfs.WithOpenMode(diskfs.ReadWrite))
		if err != nil {
			return nil, err
		}
		if err := dk.Partition(c11Table(obj, false)); err != nil {
			return nil, fmt.Errorf("partition: %w", err)
		}
		f, err := dk.CreateFilesystem(disk.FilesystemSpec{Partition: 1, FSType: filesystem.TypeFat32, VolumeLabel: "P1"})
		if err != nil {
			return nil, fmt.Errorf("create fs: %w", err)
		}
		if err := fsx.Populate(f, c11Entries(false)); err != nil {
			return nil, err
		}
		if obj == "gptbad" {
			// one byte of the primary partition array (second entry's name): its CRC no longer matches
			x := d.Bytes(1024+128+60, 1)
			d.Poke(1024+128+60, []byte{x[0] ^ 0x41})
			if _, err := diskfs.OpenBackend(file.New(d, true)); err != nil {
				return nil, fmt.Errorf("damaged-primary GPT cannot be opened at all: %w", err)
			}
		}
		if obj == "mbrshort" {
			// the image ends inside partition 2
			size = 60 << 20
			d.SetSize(size)
		}
		b.dev, b.size = d, size
	default:
		return nil, fmt.Errorf("unknown object %s", obj)
	}
	b.path = filepath.Join(dir, obj+".img")
	f, err := os.Create(b.path)
	if err != nil {
		return nil, err
	}
	defer f.Close()
	if err := f.Truncate(b.dev.Size()); err != nil {
		return nil, err
	}
	for _, pg := range b.dev.TouchedPages() {
		off := pg * 4096
		n := int64(4096)
		if off+n > b.dev.Size() {
			n = b.dev.Size() - off
		}
		if n > 0 {
			f.WriteAt(b.dev.Bytes(off, n), off)
		}
	}
	return b, nil
}

// c11ForeignEmpty rewrites the directory entry of EMPTY.DAT on a FAT16 volume at offset 0 to first cluster
// 0 and frees the cluster the library had given it in both FAT copies.
func c11ForeignEmpty(d *memdev.Dev, size int64) error {
	v, err := rawfat.Parse(d, 0, size)
	if err != nil {
		return err
	}
	var first uint32
	for _, e := range v.Entries {
		if strings.EqualFold(strings.TrimPrefix(e.Path, "/"), "EMPTY.DAT") {
			first = e.First
		}
	}
	if first < 2 {
		return fmt.Errorf("EMPTY.DAT not found by the independent parser (first cluster %d)", first)
	}
	rootOff := int64(v.Reserved+v.NumFATs*int(v.FATSectors)) * int64(v.BPS)
	root := d.Bytes(rootOff, int64(v.RootEntries)*32)
	at := int64(-1)
	for i := 0; i+32 <= len(root); i += 32 {
		if string(root[i:i+11]) == "EMPTY   DAT" {
			at = rootOff + int64(i)
		}
	}
	if at < 0 {
		return fmt.Errorf("directory entry of EMPTY.DAT not found in the root directory")
	}
	d.Poke(at+20, []byte{0, 0})
	d.Poke(at+26, []byte{0, 0})
	for k := 0; k < v.NumFATs; k++ {
		d.Poke(int64(v.Reserved+k*int(v.FATSectors))*int64(v.BPS)+int64(first)*2, []byte{0, 0})
	}
	v2, err := rawfat.Parse(d, 0, size)
	if err != nil {
		return err
	}
	for _, e := range v2.Entries {
		if strings.EqualFold(strings.TrimPrefix(e.Path, "/"), "EMPTY.DAT") && e.First == 0 && e.Size == 0 {
			return nil
		}
	}
	return fmt.Errorf("patched entry not seen by the independent parser")
}

func c11Table(kind string, alt bool) partition.Table {
	s1, e1 := uint64(2048), uint64(2048+40<<20/512-1)
	s2 := e1 + 1
	e2 := s2 + 40<<20/512 - 1
	if alt {
		e1 -= 2048
		s2 += 4096
	}
	if kind == "gpt" || kind == "gptbad" {
		return &gpt.Table{LogicalSectorSize: 512, PhysicalSectorSize: 512, ProtectiveMBR: true, Partitions: []*gpt.Partition{
			{Index: 1, Start: s1, End: e1, Type: gpt.MicrosoftBasicData, Name: "one"}, {Index: 2, Start: s2, End: e2, Type: gpt.LinuxFilesystem, Name: "two"}}}
	}
	return &mbr.Table{LogicalSectorSize: 512, PhysicalSectorSize: 512, Partitions: []*mbr.Partition{
		{Index: 1, Start: uint32(s1), Size: uint32(e1 - s1 + 1), Type: mbr.Fat32LBA}, {Index: 2, Start: uint32(s2), Size: uint32(e2 - s2 + 1), Type: mbr.Linux}}}
}

type c11Obj struct {
	fs   filesystem.FileSystem
	dk   *disk.Disk
	dev  *memdev.Dev // nil on the path route
	path string
	done func()
	stat func() string // route rofile: length and modification time of the backing file
}

func c11Open(b *c11Base, route string, variant int, work string) (*c11Obj, error) {
	o := &c11Obj{done: func() {}}
	var st backend.Storage
	switch route {
	case "robackend":
		o.dev = b.dev.Clone()
		st = file.New(o.dev, true)
	case "nowritable":
		o.dev = b.dev.Clone()
		st = noWritable{file.New(o.dev, false)}
	case "rw":
		o.dev = b.dev.Clone()
		st = file.New(o.dev, false)
	case "rofile":
		// a private sparse copy of the image as a real file, opened O_RDWR, handed to the library as a
		// READ-ONLY backend: whatever the library can reach through Sys() would be able to write
		p := filepath.Join(work, fmt.Sprintf("%s-rofile-%d-%d.img", b.obj, variant, time.Now().UnixNano()))
		f, err := os.OpenFile(p, os.O_CREATE|os.O_RDWR|os.O_EXCL, 0o644)
		if err != nil {
			return nil, err
		}
		if err := f.Truncate(b.dev.Size()); err != nil {
			f.Close()
			return nil, err
		}
		for _, pg := range b.dev.TouchedPages() {
			off := pg * 4096
			n := int64(4096)
			if off+n > b.dev.Size() {
				n = b.dev.Size() - off
			}
			if n > 0 {
				f.WriteAt(b.dev.Bytes(off, n), off)
			}
		}
		f.Sync()
		old := time.Unix(1000000000, 0)
		os.Chtimes(p, old, old) // any later write or truncate moves the modification time away from this
		o.path = p
		o.stat = func() string {
			st, err := os.Stat(p)
			if err != nil {
				return "err:" + err.Error()
			}
			return fmt.Sprintf("%d@%d", st.Size(), st.ModTime().UnixNano())
		}
		o.done = func() { f.Close(); os.Remove(p) }
		st = file.New(f, true)
	case "ropath":
		// a private copy of the image file, opened read-only by path
		p := filepath.Join(work, fmt.Sprintf("%s-%d-%d.img", b.obj, variant, time.Now().UnixNano()))
		if err := os.Link(b.path, p); err != nil {
			return nil, err
		}
		// the link shares the inode: a write through it would show in b.path as well - detected by the final hash
		o.path = p
		o.done = func() { os.Remove(p) }
		if b.fsObj && variant%2 == 0 {
			s, err := file.OpenFromPath(p, true)
			if err != nil {
				return nil, err
			}
			st = s
			o.done = func() { s.Close(); os.Remove(p) }
		} else {
			dk, err := diskfs.Open(p, diskfs.WithOpenMode(diskfs.ReadOnly))
			if err != nil {
				return nil, err
			}
			o.dk = dk
			o.done = func() { dk.Close(); os.Remove(p) }
			if b.fsObj {
				f, err := dk.GetFilesystem(0)
				if err != nil {
					return nil, fmt.Errorf("GetFilesystem(0) on %s: %w", b.obj, err)
				}
				o.fs = f
			}
			return o, nil
		}
	}
	if b.fsObj {
		f, err := fsx.OpenBackend(strings.TrimSuffix(b.obj, "x"), st, b.size, 0, b.sect)
		if err != nil {
			return nil, err
		}
		o.fs = f
		return o, nil
	}
	mode := diskfs.ReadOnly
	if route == "rw" {
		mode = diskfs.ReadWrite
	}
	dk, err := diskfs.OpenBackend(st, diskfs.WithOpenMode(mode))
	if err != nil {
		return nil, err
	}
	o.dk = dk
	return o, nil
}

func c11View(o *c11Obj) string {
	var sb strings.Builder
	if o.fs != nil {
		w, err := fsx.Walk(o.fs, 1<<22)
		if err != nil {
			fmt.Fprintf(&sb, "walk-error:%v;", err)
		}
		ps := make([]string, 0, len(w))
		for p := range w {
			ps = append(ps, p)
		}
		sort.Strings(ps)
		for _, p := range ps {
			n := w[p]
			fmt.Fprintf(&sb, "%s|%s|%d|%x|%s|%s;", p, n.Kind, n.Size, sha256.Sum256(n.Data), n.Link, n.Err)
		}
		fmt.Fprintf(&sb, "label=%q", strings.TrimSpace(o.fs.Label()))
		return sb.String()
	}
	t, err := o.dk.GetPartitionTable()
	if err != nil {
		return "table-error:" + err.Error()
	}
	fmt.Fprintf(&sb, "%s;", t.Type())
	for _, p := range t.GetPartitions() {
		fmt.Fprintf(&sb, "%d+%d;", p.GetStart(), p.GetSize())
	}
	if f, err := o.dk.GetFilesystem(1); err == nil {
		if es, err := f.ReadDir("."); err == nil {
			for _, e := range es {
				sb.WriteString(e.Name() + ",")
			}
		} else {
			sb.WriteString("readdir-error")
		}
	} else {
		sb.WriteString("nofs")
	}
	return sb.String()
}

func c11Do(o *c11Obj, b *c11Base, op string) (res string) {
	res = "ok"
	e := func(err error) {
		if err != nil {
			res = "err"
		}
	}
	if pn := fsx.Catch(func() {
		fs := o.fs
		open := func(p string, flag int) {
			f, err := fs.OpenFile(p, flag)
			e(err)
			if err == nil && f != nil {
				// the handle was handed out: use it the way a caller would
				f.Write([]byte("written through a handle that should not exist"))
				f.Close()
			}
		}
		switch op {
		case "Mkdir":
			e(fs.Mkdir("newdir"))
		case "Create":
			open("new.txt", os.O_CREATE|os.O_RDWR)
		case "OpenRW":
			open("a.txt", os.O_RDWR)
		case "OpenAppend":
			open("a.txt", os.O_RDWR|os.O_APPEND)
		case "OpenTrunc":
			open("a.txt", os.O_RDWR|os.O_TRUNC)
		case "WriteOnROHandle":
			f, err := fs.OpenFile("a.txt", os.O_RDONLY)
			if err != nil {
				e(err)
				return
			}
			_, err = f.Write([]byte("x"))
			e(err)
			f.Close()
		case "Rename":
			e(fs.Rename("a.txt", "renamed.txt"))
		case "Remove":
			e(fs.Remove("other"))
		case "SetLabel":
			e(fs.SetLabel("NEWLBL"))
		case "Chmod":
			e(fs.Chmod("a.txt", 0o600))
		case "Chown":
			e(fs.Chown("a.txt", 7, 8))
		case "Chtimes":
			t := time.Unix(1500000000, 0)
			e(fs.Chtimes("a.txt", t, t, t))
		case "Symlink":
			e(fs.Symlink("a.txt", "newlnk"))
		case "ReadDirRoot":
			_, err := fs.ReadDir(".")
			e(err)
		case "ReadDirSub":
			_, err := fs.ReadDir("dir")
			e(err)
		case "Stat":
			_, err := fs.Stat("a.txt")
			e(err)
		case "ReadFile":
			f, err := fs.OpenFile("dir/b.bin", os.O_RDONLY)
			if err != nil {
				e(err)
				return
			}
			_, err = fsx.ReadAll(f, 1<<20)
			e(err)
			f.Close()
		case "ReadLink":
			if rl, ok := fs.(interface{ ReadLink(string) (string, error) }); ok {
				_, err := rl.ReadLink("lnk")
				e(err)
			} else {
				res = "err"
			}
		case "ReadEmpty":
			f, err := fs.OpenFile("EMPTY.DAT", os.O_RDONLY)
			if err != nil {
				e(err)
				return
			}
			_, err = fsx.ReadAll(f, 1<<20)
			e(err)
			f.Close()
		case "Label":
			_ = fs.Label()
		case "Partition":
			e(o.dk.Partition(c11Table(b.obj, true)))
		case "WritePartitionContents":
			_, err := o.dk.WritePartitionContents(2, bytes.NewReader(bytes.Repeat([]byte{0x5A}, 8192)))
			e(err)
		case "CreateFilesystem":
			_, err := o.dk.CreateFilesystem(disk.FilesystemSpec{Partition: 2, FSType: filesystem.TypeFat32, VolumeLabel: "NEW"})
			e(err)
		case "CreateExt4":
			_, err := o.dk.CreateFilesystem(disk.FilesystemSpec{Partition: 2, FSType: filesystem.TypeExt4, VolumeLabel: "NEW"})
			e(err)
		case "CreateFat16":
			_, err := o.dk.CreateFilesystem(disk.FilesystemSpec{Partition: 2, FSType: filesystem.TypeFat16, VolumeLabel: "NEW"})
			e(err)
		case "GetPartitionTable":
			_, err := o.dk.GetPartitionTable()
			e(err)
		case "ReadPartitionContents":
			_, err := o.dk.ReadPartitionContents(1, io.Discard)
			e(err)
		case "GetFilesystemAndList":
			f, err := o.dk.GetFilesystem(1)
			if err != nil {
				e(err)
				return
			}
			_, err = f.ReadDir(".")
			e(err)
		default:
			res = "panic"
		}
	}); pn != "" {
		return "panic"
	}
	return res
}

func fileSHA(p string) string {
	f, err := os.Open(p)
	if err != nil {
		return "err:" + err.Error()
	}
	defer f.Close()
	h := sha256.New()
	io.Copy(h, f)
	return fmt.Sprintf("%x", h.Sum(nil))
}

func C11(c *core.Ctx) {
	c.Rule = "case = one call sequence of ReadOnly.tla on one (object, route): objects FAT12/16/32 (also a FAT16 volume holding an empty file in the form other tools write it: first cluster 0), ext4, ISO9660, squashfs volumes and GPT / MBR disks with a FAT32 partition (also: primary GPT array damaged, image shorter than its last partition); routes: backend created read-only, backend whose Writable() fails over storage that would accept writes, read-only backend over a real file whose descriptor is writable (length and modification time compared after every call), image file opened read-only by path (OpenFromPath / diskfs.Open(ReadOnly)), and read-write (reads must still not write; finalized ISO/squashfs must still refuse); calls: 13 mutating and 7 reading filesystem entry points, 5 + 3 disk entry points (CreateFilesystem as FAT32, FAT16 and ext4); every sequence of length <= D (quick 2, thorough 3) enumerated by TLC; after every call: result class, image bytes changed, WriteAt attempts that reached the device, and the view through the LIVE object compared with the view before the call; non-trivial = every sequence (distinct key = object/route/sequence)"
	c.Assumptions = []string{"on the path route the kernel enforces O_RDONLY; the image file is hashed at the end of the sequence", "view = full tree walk with content hashes, link targets and label (filesystems) or partition table plus the listing of partition 1 (disks)"}
	mc, err := tlcRun("ReadOnly_MC", "ReadOnly_MC.cfg")
	if err != nil || !mc.OK {
		c.Broken("ReadOnly MC: %v", err)
		return
	}
	c.States, c.Transitions = mc.Distinct, mc.Generated
	D := 2
	if c.Tier == "thorough" {
		D = 3
	}
	gen, err := tlc.Run(tlc.Opts{Module: "ReadOnly_Gen", Config: "gen.cfg", Workers: 8, Files: map[string][]byte{"gen.cfg": []byte(fmt.Sprintf("SPECIFICATION GSpec\nCONSTANT D = %d\nINVARIANT Emit\nVIEW VIEW_\nCHECK_DEADLOCK FALSE\n", D))}, Timeout: 30 * time.Minute})
	if err != nil || !gen.OK {
		c.Broken("ReadOnly_Gen: %v", err)
		return
	}
	type seq struct {
		Obj   string   `json:"obj"`
		Route string   `json:"route"`
		Ops   []string `json:"ops"`
	}
	seen := map[string]bool{}
	var seqs []seq
	for _, l := range gen.Beh {
		if seen[l] {
			continue
		}
		seen[l] = true
		var s seq
		if json.Unmarshal([]byte(l), &s) != nil {
			c.Broken("bad behaviour %s", l)
			return
		}
		seqs = append(seqs, s)
	}
	// a sequence that is a proper prefix of another one is covered by it
	isPrefix := map[string]bool{}
	for _, s := range seqs {
		if len(s.Ops) > 1 {
			isPrefix[s.Obj+"|"+s.Route+"|"+strings.Join(s.Ops[:len(s.Ops)-1], ",")] = true
		}
	}
	var run []seq
	for _, s := range seqs {
		if !isPrefix[s.Obj+"|"+s.Route+"|"+strings.Join(s.Ops, ",")] {
			run = append(run, s)
		}
	}
	sort.Slice(run, func(i, j int) bool { a, _ := json.Marshal(run[i]); b, _ := json.Marshal(run[j]); return string(a) < string(b) })
	work, err := os.MkdirTemp("", "c11")
	if err != nil {
		c.Broken("tmp: %v", err)
		return
	}
	defer os.RemoveAll(work)
	bases := map[string]*c11Base{}
	baseSHA := map[string]string{}
	for _, o := range []string{"fat12", "fat16", "fat32", "fat16x", "ext4", "iso", "squashfs", "gpt", "mbr", "gptbad", "mbrshort"} {
		b, err := c11Build(o, work)
		if err != nil {
			c.Broken("base %s: %v", o, err)
			return
		}
		bases[o] = b
		baseSHA[o] = fileSHA(b.path)
	}
	events := make([][]map[string]any, len(run))
	var emu sync.Mutex
	parallel(len(run), func(i int) {
		s := run[i]
		b := bases[s.Obj]
		o, err := c11Open(b, s.Route, i, work)
		if err != nil {
			emu.Lock()
			c.Broken("open %s via %s: %v", s.Obj, s.Route, err)
			emu.Unlock()
			return
		}
		defer o.done()
		view := c11View(o)
		var evs []map[string]any
		// opening the object and projecting it are reading calls too
		if o.dev != nil {
			if n := memdev.WriteAttempts(o.dev.Log()); n > 0 {
				evs = append(evs, map[string]any{"obj": s.Obj, "route": s.Route, "op": "GetPartitionTable", "seq": []string{"<open>"}, "step": -1, "res": "ok", "writes": n, "changed": o.dev.SHA(0, o.dev.Size()) != b.dev.SHA(0, b.dev.Size()), "viewsame": true, "at_open": true})
				if b.fsObj {
					evs[0]["op"] = "ReadDirRoot"
				}
			}
		}
		for k, op := range s.Ops {
			ev := map[string]any{"obj": s.Obj, "route": s.Route, "op": op, "seq": s.Ops, "step": k, "writes": 0, "changed": false}
			var before [32]byte
			mark := 0
			if o.dev != nil {
				mark = o.dev.Mark()
				before = o.dev.SHA(0, o.dev.Size())
			}
			st0 := ""
			if o.stat != nil {
				st0 = o.stat()
			}
			ev["res"] = c11Do(o, b, op)
			if o.stat != nil {
				if st1 := o.stat(); st1 != st0 {
					ev["changed"] = true
					ev["file_before_after"] = st0 + " -> " + st1
				}
			}
			if o.dev != nil {
				ops := o.dev.Since(mark)
				ev["writes"] = memdev.WriteAttempts(ops)
				if len(ops) > 0 {
					ev["changed"] = o.dev.SHA(0, o.dev.Size()) != before
				}
			}
			mark2 := 0
			if o.dev != nil {
				mark2 = o.dev.Mark()
			}
			v2 := c11View(o)
			ev["viewsame"] = v2 == view
			if !ev["viewsame"].(bool) {
				ev["view_before"], ev["view_after"] = trunc(view), trunc(v2)
			}
			// the projection itself is made of reading calls: it must not write either
			if o.dev != nil && memdev.WriteAttempts(o.dev.Since(mark2)) > 0 {
				ev["projection_wrote"] = true
			}
			view = v2
			evs = append(evs, ev)
		}
		if o.dev == nil && len(evs) > 0 {
			if fileSHA(o.path) != baseSHA[s.Obj] {
				evs[len(evs)-1]["changed"] = true
			}
		}
		events[i] = evs
	})
	var trace bytes.Buffer
	var flat []map[string]any
	for i, evs := range events {
		if evs == nil {
			continue
		}
		js, _ := json.Marshal(run[i])
		c.Distinct(string(js))
		for _, ev := range evs {
			b, _ := json.Marshal(ev)
			trace.Write(b)
			trace.WriteByte('\n')
			flat = append(flat, ev)
			c.AddEval(1)
		}
		if i%(len(run)/5+1) == 0 {
			c.Sample(evs)
		}
	}
	tv, err := tlc.ValidateTrace("ReadOnly_Trace", "ReadOnly_Trace.cfg", trace.Bytes(), nil, 30*time.Minute, false)
	if err != nil {
		c.Broken("ReadOnly_Trace: %v", err)
		return
	}
	for _, idx := range tv.Mismatches {
		ev := flat[idx-1]
		what := "accepted"
		switch {
		case ev["res"] == "panic":
			what = "panic"
		case ev["changed"] == true:
			what = "image-changed"
		case ev["viewsame"] != true:
			what = "view-changed"
		case fmt.Sprint(ev["writes"]) != "0" && ev["res"] != "ok":
			what = "wrote"
		case fmt.Sprint(ev["writes"]) != "0":
			what = "wrote"
		}
		sig := fmt.Sprintf("ro-%s-%s-%s", str(ev, "obj"), str(ev, "op"), what)
		c.Fail([]string{sig}, fmt.Sprintf("%s via %s, sequence %v step %v: %s -> res=%v changed=%v writes=%v viewsame=%v %v", ev["obj"], ev["route"], ev["seq"], ev["step"], ev["op"], ev["res"], ev["changed"], ev["writes"], ev["viewsame"], ev["view_after"]), ev)
	}
	c.TracesValidated = int64(len(run))
	if c.Extra == nil {
		c.Extra = map[string]any{}
	}
	c.Extra["sequences"] = len(run)
	for _, ev := range flat {
		if ev["projection_wrote"] == true {
			c.Fail([]string{"ro-" + str(ev, "obj") + "-projection-wrote"}, fmt.Sprintf("%s via %s: listing/reading the tree after %v wrote to the device", ev["obj"], ev["route"], ev["op"]), ev)
		}
	}
}
