package props

import (
	"encoding/json"
	"runtime"

	"verif/harness/internal/tlc"
	"sync"
)

// parallel runs f(0..n-1) on GOMAXPROCS workers.
func parallel(n int, f func(i int)) {
	w := runtime.GOMAXPROCS(0)
	if w > n {
		w = n
	}
	if w < 1 {
		w = 1
	}
	var wg sync.WaitGroup
	ch := make(chan int, n)
	for i := 0; i < n; i++ {
		ch <- i
	}
	close(ch)
	for k := 0; k < w; k++ {
		wg.Add(1)
		go func() {
			defer wg.Done()
			for i := range ch {
				f(i)
			}
		}()
	}
	wg.Wait()
}

func jsonUnmarshal(s string, v any) error { return json.Unmarshal([]byte(s), v) }

func tlcRun(module, cfg string) (*tlc.Result, error) {
	return tlc.Run(tlc.Opts{Module: module, Config: cfg, Workers: 4})
}
