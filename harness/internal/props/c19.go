package props

import (
	"fmt"
	"os"
	"path/filepath"
	"strconv"
	"strings"
	"time"

	"github.com/diskfs/go-diskfs/backend/file"
	"github.com/diskfs/go-diskfs/filesystem"
	"github.com/diskfs/go-diskfs/filesystem/ext4"
	"github.com/diskfs/go-diskfs/filesystem/iso9660"
	"github.com/diskfs/go-diskfs/filesystem/squashfs"

	"verif/harness/internal/core"
	"verif/harness/internal/fsx"
	"verif/harness/internal/memdev"
	"verif/harness/internal/rawfat"
)

// C19 — file metadata survives being written into an image (Meta.tla).

func fatStamp(date, tm uint16) string {
	if date == 0 {
		return "0"
	}
	t := time.Date(int(date>>9)+1980, time.Month((date>>5)&0xf), int(date&0x1f), int(tm>>11), int((tm>>5)&0x3f), int(tm&0x1f)*2, 0, time.UTC)
	return strconv.FormatInt(t.Unix(), 10)
}

func b2s(b bool) string {
	if b {
		return "1"
	}
	return "0"
}

// ---- ext4 ----
func c19ProjectExt4(fs filesystem.FileSystem) (map[string]any, error) {
	out := map[string]any{}
	w, err := fsx.Walk(fs, 1<<20)
	if err != nil {
		return nil, err
	}
	for p, n := range w {
		fi, err := fs.Stat(p)
		if err != nil {
			return nil, fmt.Errorf("stat %s: %v", p, err)
		}
		a := map[string]any{"kind": n.Kind, "mode": modeString(fi.Mode()), "mt": strconv.FormatInt(fi.ModTime().Unix(), 10), "uid": "", "gid": "", "at": "", "link": n.Link, "size": strconv.FormatInt(n.Size, 10)}
		if st, ok := fi.Sys().(*ext4.StatT); ok && st != nil {
			a["uid"], a["gid"] = strconv.FormatUint(uint64(st.UID), 10), strconv.FormatUint(uint64(st.GID), 10)
			a["at"] = strconv.FormatInt(st.AccessTime.Unix(), 10)
		}
		out[p] = a
	}
	return out, nil
}

func c19Ext4(t, tt map[string]any) map[string]any {
	ev := map[string]any{"res": "ok", "before": map[string]any{}, "after": map[string]any{}, "sets": []any{}}
	v, err := fsx.CreateMutable("ext4", fsx.Opt{Size: 20 << 20})
	if err != nil {
		ev["res"], ev["detail"] = "setup", err.Error()
		return ev
	}
	if err := fsx.Populate(v.FS, []fsx.Entry{{Path: "a.txt", Data: fsx.Content(1, 3000)}, {Path: "dir1", Dir: true}, {Path: "dir1/b.bin", Data: fsx.Content(2, 10)}, {Path: "lnk", Link: "a.txt"}, {Path: "other.dat", Data: fsx.Content(3, 1)}}); err != nil {
		ev["res"], ev["detail"] = "setup", err.Error()
		return ev
	}
	p := "a.txt"
	if str(t, "tgt") == "dir" {
		p = "dir1"
	}
	if str(t, "pre") == "max" {
		// an earlier call of the same kind left an extreme value behind
		var perr error
		if pn := fsx.Catch(func() {
			switch str(t, "op") {
			case "chmod":
				perr = v.FS.Chmod(p, parseMode("7777"))
			case "chown":
				perr = v.FS.Chown(p, 4294967294, 65535)
			case "chtimes":
				perr = v.FS.Chtimes(p, time.Unix(4354819198, 0), time.Unix(4354819198, 0), time.Unix(4354819198, 0))
			}
		}); pn != "" || perr != nil {
			ev["res"], ev["detail"] = "setup", fmt.Sprintf("pre-state: %v %v", pn, perr)
			return ev
		}
	}
	before, err := c19ProjectExt4(v.FS)
	if err != nil {
		ev["res"], ev["detail"] = "setup", err.Error()
		return ev
	}
	ev["before"] = before
	cls := str(t, "cls")
	var sets []any
	var oerr error
	if pn := fsx.Catch(func() {
		switch str(t, "op") {
		case "chmod":
			oerr = v.FS.Chmod(p, parseMode(cls))
			sets = append(sets, map[string]any{"p": p, "a": "mode", "v": cls})
		case "chown":
			u, _ := strconv.ParseInt(cls, 10, 64)
			g := (u*7 + 13) % 4294967295
			oerr = v.FS.Chown(p, int(u), int(g))
			sets = append(sets, map[string]any{"p": p, "a": "uid", "v": cls}, map[string]any{"p": p, "a": "gid", "v": strconv.FormatInt(g, 10)})
		case "chtimes":
			sec, _ := strconv.ParseInt(str(tt, "v"), 10, 64)
			oerr = v.FS.Chtimes(p, time.Unix(sec, 0), time.Unix(sec, 0), time.Unix(sec, 0))
			sets = append(sets, map[string]any{"p": p, "a": "mt", "v": str(tt, "ext4")}, map[string]any{"p": p, "a": "at", "v": str(tt, "ext4")})
		}
	}); pn != "" {
		ev["res"], ev["detail"] = "panic", pn
		return ev
	}
	if oerr != nil {
		ev["res"], ev["detail"] = "err", oerr.Error()
		return ev
	}
	ev["sets"] = sets
	re, err := v.Reopen()
	if err != nil {
		ev["res"], ev["detail"] = "reopen", err.Error()
		return ev
	}
	after, err := c19ProjectExt4(re)
	if err != nil {
		ev["res"], ev["detail"] = "reopen", err.Error()
		return ev
	}
	ev["after"] = after
	return ev
}

// ---- FAT ----
func c19ProjectFat(v *fsx.Vol) (map[string]any, error) {
	re, err := v.Reopen()
	if err != nil {
		return nil, err
	}
	raw, err := rawfat.Parse(v.Dev, v.Start, v.Size)
	if err != nil {
		return nil, err
	}
	out := map[string]any{}
	for _, e := range raw.Entries {
		kind := "file"
		if e.IsDir {
			kind = "dir"
		}
		a := map[string]any{"kind": kind, "mt_raw": fatStamp(e.MTime[0], e.MTime[1]), "ct": fatStamp(e.CTime[0], e.CTime[1]), "at": fatStamp(e.ADate, 0),
			"ro": b2s(e.Attr&1 != 0), "hidden": b2s(e.Attr&2 != 0), "system": b2s(e.Attr&4 != 0), "archive": b2s(e.Attr&0x20 != 0), "size": strconv.Itoa(int(e.Size)), "mt_api": "", "flags_api": ""}
		if fi, err := re.Stat(e.Path); err == nil {
			a["mt_api"] = strconv.FormatInt(fi.ModTime().Unix(), 10)
			if (kind == "dir") != fi.IsDir() {
				a["kind"] = "confused"
			}
		} else {
			a["mt_api"] = "stat-error"
		}
		if !e.IsDir {
			if f, err := re.OpenFile(e.Path, os.O_RDONLY); err == nil {
				if g, ok := f.(interface {
					IsHidden() bool
					IsSystem() bool
					IsReadOnly() bool
				}); ok {
					a["flags_api"] = b2s(g.IsReadOnly()) + b2s(g.IsHidden()) + b2s(g.IsSystem())
				}
				f.Close()
			}
		}
		out[e.Path] = a
	}
	return out, nil
}

func c19Fat(t, tt map[string]any) map[string]any {
	ev := map[string]any{"res": "ok", "before": map[string]any{}, "after": map[string]any{}, "sets": []any{}}
	kind := str(t, "fmt")
	v, err := fsx.CreateMutable(kind, fsx.Opt{Size: map[string]int64{"fat12": 1474560, "fat16": 5 << 20, "fat32": 34 << 20}[kind]})
	if err != nil {
		ev["res"], ev["detail"] = "setup", err.Error()
		return ev
	}
	if err := fsx.Populate(v.FS, []fsx.Entry{{Path: "A.TXT", Data: fsx.Content(1, 700)}, {Path: "DIR", Dir: true}, {Path: "DIR/B.BIN", Data: fsx.Content(2, 10)}, {Path: "a long file name.text", Data: fsx.Content(3, 1)}}); err != nil {
		ev["res"], ev["detail"] = "setup", err.Error()
		return ev
	}
	// give every node known, distinct flags/times first (so that "unchanged" is meaningful)
	v.FS.Chtimes("DIR/B.BIN", time.Unix(946684800, 0), time.Unix(946684800, 0), time.Unix(946684800, 0))
	before, err := c19ProjectFat(v)
	if err != nil {
		ev["res"], ev["detail"] = "setup", err.Error()
		return ev
	}
	ev["before"] = before
	p := "A.TXT"
	if str(t, "tgt") == "dir" {
		p = "DIR"
	}
	cls := str(t, "cls")
	var sets []any
	set := func(a, val string) { sets = append(sets, map[string]any{"p": p, "a": a, "v": val}) }
	var oerr error
	if pn := fsx.Catch(func() {
		switch str(t, "op") {
		case "chtimes":
			sec, _ := strconv.ParseInt(str(tt, "v"), 10, 64)
			oerr = v.FS.Chtimes(p, time.Unix(sec, 0).UTC(), time.Unix(sec, 0).UTC(), time.Unix(sec, 0).UTC())
			set("mt_api", str(tt, "fatm"))
			set("mt_raw", str(tt, "fatm"))
			set("ct", str(tt, "fatm"))
			set("at", str(tt, "fata"))
		case "flags":
			f, err := v.FS.OpenFile(p, os.O_RDWR)
			if err != nil {
				oerr = err
				return
			}
			type flagger interface {
				SetHidden(bool) error
				SetSystem(bool) error
				SetReadOnly(bool) error
			}
			g, ok := f.(flagger)
			if !ok {
				oerr = fmt.Errorf("handle has no flag setters")
				return
			}
			arch := v.FS.(interface{ SetArchiveBit(string, bool) error })
			cur := before[p].(map[string]any)
			ro, hid, sys := cur["ro"].(string), cur["hidden"].(string), cur["system"].(string)
			switch cls {
			case "hidden":
				oerr = g.SetHidden(true)
				set("hidden", "1")
				hid = "1"
			case "system":
				oerr = g.SetSystem(true)
				set("system", "1")
				sys = "1"
			case "readonly":
				oerr = g.SetReadOnly(true)
				set("ro", "1")
				ro = "1"
			case "archive":
				f.Close()
				want := "1"
				if cur["archive"] == "1" {
					want = "0"
				}
				oerr = arch.SetArchiveBit(p, want == "1")
				set("archive", want)
			case "allflags":
				for _, e := range []error{g.SetHidden(true), g.SetSystem(true), g.SetReadOnly(true), g.SetHidden(false)} {
					if e != nil {
						oerr = e
					}
				}
				set("hidden", "0")
				set("system", "1")
				set("ro", "1")
				hid, sys, ro = "0", "1", "1"
			}
			set("flags_api", ro+hid+sys)
			f.Close()
		}
	}); pn != "" {
		ev["res"], ev["detail"] = "panic", pn
		return ev
	}
	if oerr != nil {
		ev["res"], ev["detail"] = "err", oerr.Error()
		return ev
	}
	ev["sets"] = sets
	after, err := c19ProjectFat(v)
	if err != nil {
		ev["res"], ev["detail"] = "reopen", err.Error()
		return ev
	}
	ev["after"] = after
	return ev
}

// ---- squashfs / ISO9660 + Rock Ridge ----
type c19Node struct {
	path, link       string
	dir              bool
	mode             os.FileMode
	uid, gid         uint32
	mtime            int64
}

func c19ImageNodes(cls string) []c19Node {
	if cls == "setA" {
		return []c19Node{{path: "file1.txt", mode: 0o644, uid: 1000, gid: 1000, mtime: 1700000001}, {path: "tool", mode: 0o755, uid: 0, gid: 0, mtime: 315532800},
			{path: "conf", dir: true, mode: 0o750, uid: 33, gid: 44, mtime: 1500000000}, {path: "conf/x.cfg", mode: 0o600, uid: 33, gid: 44, mtime: 1500000002}, {path: "lnk", link: "file1.txt"}}
	}
	if cls == "setC" {
		// symlinks whose directory records need continuation areas: several per directory, long
		// names, long and many-component targets, a component longer than one SL entry
		n := []c19Node{{path: "d", dir: true, mode: 0o755, uid: 1, gid: 2, mtime: 1600000000}}
		for i, l := range []int{1, 60, 113, 120, 134, 180} {
			n = append(n, c19Node{path: fmt.Sprintf("d/%s%d", strings.Repeat("n", l), i), link: strings.Repeat("t", 40*i+1)})
			n = append(n, c19Node{path: fmt.Sprintf("%s%d", strings.Repeat("m", l), i), link: strings.Repeat("../x/", 20*i) + "e"})
		}
		// components at the edge of what one SL component record holds (245 bytes), in first, middle and last position
		for _, l := range []int{244, 245, 246, 247, 490, 491} {
			c := strings.Repeat("k", l)
			n = append(n, c19Node{path: fmt.Sprintf("e%dfirst", l), link: c + "/file.txt"}, c19Node{path: fmt.Sprintf("e%dmid", l), link: "/a/" + c + "/b"}, c19Node{path: fmt.Sprintf("e%dlast", l), link: "x/" + c})
		}
		// long targets up to the 4095-byte limit: several continuation areas in a Rock Ridge image
		for _, l := range []int{1000, 2000, 4095} {
			t := strings.Repeat(strings.Repeat("p", 99)+"/", l/100) + strings.Repeat("q", l%100)
			n = append(n, c19Node{path: fmt.Sprintf("long%d", l), link: t[:l]})
		}
		n = append(n, c19Node{path: "d/big1", link: strings.Repeat("c", 250)}, c19Node{path: "d/big2", link: "/" + strings.Repeat("c", 300) + "/" + strings.Repeat("e", 255)},
			c19Node{path: "d/plain", mode: 0o640, uid: 5, gid: 6, mtime: 1600000001}, c19Node{path: "dots", link: "./../.././a/.."})
		return n
	}
	return []c19Node{{path: "suid", mode: 0o711 | os.ModeSetuid, uid: 65536, gid: 4294967294, mtime: 2147483648}, {path: "sgid", mode: 0o070 | os.ModeSetgid, uid: 65535, gid: 65536, mtime: 1},
		{path: "tmp", dir: true, mode: 0o777 | os.ModeSticky, uid: 4294967294, gid: 1, mtime: 4102444799}, {path: "tmp/none", mode: 0o000, uid: 1, gid: 65535, mtime: 86400}, {path: "all", mode: 0o777 | os.ModeSetuid | os.ModeSetgid | os.ModeSticky, uid: 7, gid: 8, mtime: 946684800},
		{path: "abs", link: "/an/absolute/target"}, {path: "long", link: strings.Repeat("d/", 120) + "end"}, {path: "one", link: "x"}}
}

func c19Image(t map[string]any) map[string]any {
	ev := map[string]any{"res": "ok", "before": map[string]any{}, "after": map[string]any{}, "sets": []any{}}
	kind := str(t, "fmt")
	nodes := c19ImageNodes(str(t, "cls"))
	size := int64(32 << 20)
	d := memdev.New(size)
	b := file.New(d, false)
	var wfs filesystem.FileSystem
	var ws string
	var err error
	if kind == "iso" {
		var f *iso9660.FileSystem
		f, err = iso9660.Create(b, size, 0, 2048, "")
		if err == nil {
			wfs, ws = f, f.Workspace()
		}
	} else {
		var f *squashfs.FileSystem
		f, err = squashfs.Create(b, size, 0, 4096)
		if err == nil {
			wfs, ws = f, f.Workspace()
		}
	}
	if err != nil {
		ev["res"], ev["detail"] = "setup", err.Error()
		return ev
	}
	defer os.RemoveAll(ws)
	before := map[string]any{}
	for _, n := range nodes {
		switch {
		case n.dir:
			err = wfs.Mkdir(n.path)
		case n.link != "":
			err = os.Symlink(n.link, filepath.Join(ws, filepath.FromSlash(n.path)))
		default:
			err = fsx.WriteFile(wfs, n.path, fsx.Content(len(n.path), 100+len(n.path)))
		}
		if err != nil {
			ev["res"], ev["detail"] = "setup", fmt.Sprintf("%s: %v", n.path, err)
			return ev
		}
	}
	// attributes on the workspace files (deepest first so that directory times survive)
	for i := len(nodes) - 1; i >= 0; i-- {
		n := nodes[i]
		wp := filepath.Join(ws, filepath.FromSlash(n.path))
		a := map[string]any{"kind": "file", "mode": "", "uid": "", "gid": "", "mt": "", "link": n.link}
		if n.dir {
			a["kind"] = "dir"
		}
		if n.link != "" {
			a["kind"] = "link"
			// ownership of the link itself; mode and time of a symlink are not settable portably
			if err := os.Lchown(wp, 12, 34); err == nil {
				a["uid"], a["gid"] = "12", "34"
			} else {
				a["uid"], a["gid"] = "0", "0"
			}
			a["mode"], a["mt"] = "any", "any"
		} else {
			if err := os.Lchown(wp, int(n.uid), int(n.gid)); err != nil {
				ev["res"], ev["detail"] = "setup", "lchown: "+err.Error()
				return ev
			}
			os.Chmod(wp, n.mode)
			os.Chtimes(wp, time.Unix(n.mtime, 0), time.Unix(n.mtime, 0))
			a["mode"], a["uid"], a["gid"], a["mt"] = modeString(n.mode), strconv.FormatUint(uint64(n.uid), 10), strconv.FormatUint(uint64(n.gid), 10), strconv.FormatInt(n.mtime, 10)
		}
		before[n.path] = a
	}
	ev["before"] = before
	var ferr error
	if pn := fsx.Catch(func() {
		switch f := wfs.(type) {
		case *iso9660.FileSystem:
			ferr = f.Finalize(iso9660.FinalizeOptions{RockRidge: true})
		case *squashfs.FileSystem:
			ferr = f.Finalize(squashfs.FinalizeOptions{})
		}
	}); pn != "" {
		ev["res"], ev["detail"] = "panic", pn
		return ev
	}
	if ferr != nil {
		ev["res"], ev["detail"] = "err", ferr.Error()
		return ev
	}
	sector := int64(2048)
	if kind != "iso" {
		sector = 4096
	}
	re, err := fsx.OpenKind(kind, d, size, 0, sector, true)
	if err != nil {
		ev["res"], ev["detail"] = "reopen", err.Error()
		return ev
	}
	after := map[string]any{}
	w, err := fsx.Walk(re, 1<<20)
	if err != nil {
		ev["res"], ev["detail"] = "reopen", "walk: "+err.Error()
		return ev
	}
	for p, n := range w {
		a := map[string]any{"kind": n.Kind, "mode": "", "uid": "", "gid": "", "mt": "", "link": ""}
		fi, err := re.Stat(p)
		if err != nil {
			a["mode"] = "stat-error: " + err.Error()
			after[p] = a
			continue
		}
		a["mode"], a["mt"] = modeString(fi.Mode()), strconv.FormatInt(fi.ModTime().Unix(), 10)
		switch st := fi.Sys().(type) {
		case *squashfs.StatT:
			a["uid"], a["gid"], a["link"] = strconv.FormatUint(uint64(st.UID), 10), strconv.FormatUint(uint64(st.GID), 10), st.LinkTarget
		case *iso9660.StatT:
			a["uid"], a["gid"], a["link"] = strconv.FormatUint(uint64(st.UID), 10), strconv.FormatUint(uint64(st.GID), 10), st.LinkTarget
		}
		k := "file"
		if fi.IsDir() {
			k = "dir"
		} else if fi.Mode()&os.ModeSymlink != 0 {
			k = "link"
		}
		if k != n.Kind {
			a["kind"] = "confused:" + n.Kind + "/" + k
		}
		if n.Kind == "link" {
			a["mode"], a["mt"] = "any", "any"
		}
		after[p] = a
	}
	ev["after"] = after
	return ev
}

func c19Exec(tp map[string]any, idx int) map[string]any {
	t, tt := toStrMap(tp["t"]), toStrMap(tp["time"])
	switch str(t, "fmt") {
	case "ext4":
		return c19Ext4(t, tt)
	case "fat12", "fat16", "fat32":
		return c19Fat(t, tt)
	}
	return c19Image(t)
}

func C19(c *core.Ctx) {
	c.Rule = "case = one tuple of Meta.tla: ext4 x {Chmod x 8 mode patterns incl. setuid/setgid/sticky, Chown x uid/gid over the 16/32-bit range, Chtimes x 6 time classes 1970..2107} x {file, directory}; FAT12/16/32 x {Chtimes x representable classes (2 s steps, date-only access time), SetHidden/SetSystem/SetReadOnly/SetArchiveBit and a set/clear sequence}; squashfs and ISO9660+Rock Ridge x two attribute sets placed on the workspace files (modes incl. special bits, owners up to 2^32-2, times 1970..2100, symlink targets of length 1/9/20/241/absolute) and finalized; every attribute of EVERY node is projected before the operation and after re-opening the image; non-trivial = every tuple (distinct key)"
	c.Assumptions = []string{"FAT creation/access times and attribute bits are read by the independent parser (rawfat) because the API exposes only the modification time and the handle flag getters", "squashfs/ISO owners are set with Lchown on the workspace (the sandbox runs as root)", "symlink mode and times are not compared (not settable portably)"}
	ts := tupleSpace{GenModule: "Meta_Gen", GenCfg: "SPECIFICATION Spec\nINVARIANT Emit\nCHECK_DEADLOCK FALSE\n", TraceModule: "Meta_Trace", TraceCfg: "Meta_Trace.cfg", Exec: c19Exec,
		Sig: func(tp, ev map[string]any, detail string) ([]string, string) {
			t := toStrMap(tp["t"])
			sig := fmt.Sprintf("meta-%s-%s", str(t, "fmt"), str(t, "op"))
			if ev["res"] != "ok" {
				sig += "-" + str(ev, "res")
				return []string{sig}, fmt.Sprintf("metadata %s: %v %v", js(t), ev["res"], ev["detail"])
			}
			// name the first differing (path, attribute)
			before, after := toStrMap(ev["before"]), toStrMap(ev["after"])
			want := map[string]string{}
			for _, s := range ev["sets"].([]any) {
				m := s.(map[string]any)
				want[str(m, "p")+"|"+str(m, "a")] = str(m, "v")
			}
			diff := ""
			for p, bv := range before {
				av := toStrMap(after[p])
				if av == nil {
					diff = "node " + p + " missing after"
					sig += "-node-missing"
					break
				}
				for a, x := range toStrMap(bv) {
					w := fmt.Sprint(x)
					if v, ok := want[p+"|"+a]; ok {
						w = v
					}
					if fmt.Sprint(av[a]) != w && diff == "" {
						diff = fmt.Sprintf("%s.%s = %v, expected %s (before %v)", p, a, av[a], w, x)
						if _, assigned := want[p+"|"+a]; assigned {
							sig += "-" + a + "-not-stored"
						} else {
							sig += "-" + a + "-of-another-node-or-field-changed"
						}
					}
				}
			}
			if diff == "" && len(after) != len(before) {
				diff = fmt.Sprintf("%d nodes before, %d after", len(before), len(after))
				sig += "-node-count"
			}
			if str(t, "fmt") != "ext4" && strings.HasPrefix(str(t, "fmt"), "fat") == false {
				sig += "-" + str(t, "cls")
			}
			return []string{sig}, fmt.Sprintf("metadata %s: %s", js(t), diff)
		}}
	ts.run(c)
}
