package props

import (
	"bytes"
	"encoding/json"
	"fmt"
	"io"
	"sort"
	"strconv"
	"time"

	diskfs "github.com/diskfs/go-diskfs"
	"github.com/diskfs/go-diskfs/backend/file"
	"github.com/diskfs/go-diskfs/disk"
	"github.com/diskfs/go-diskfs/partition"
	"github.com/diskfs/go-diskfs/partition/gpt"
	"github.com/diskfs/go-diskfs/partition/mbr"
	dsync "github.com/diskfs/go-diskfs/sync"

	"verif/harness/internal/core"
	"verif/harness/internal/fsx"
	"verif/harness/internal/memdev"
	"verif/harness/internal/tlc"
)

// C13 — partition contents are streamed to and from exactly the partition (PartIO.tla).

type chunkReader struct {
	tag   int
	n     int64 // total length
	pos   int64
	chunk int // max bytes per Read (0 = as much as fits)
	eofWithData bool // the last piece is returned together with io.EOF (as io.Reader allows)
	data  string // "pat" (default), "zero", "holes"
	pss   int64
}

// c13Byte is byte i of the content class: a non-zero pattern, zeroes, or the pattern with every odd
// physical sector zeroed
func c13Byte(data string, tag int, i, pss int64) byte {
	switch data {
	case "zero":
		return 0
	case "holes":
		if pss > 0 && (i/pss)%2 == 1 {
			return 0
		}
	}
	return fsx.ContentByte(tag, i)
}

func c13Content(data string, tag int, n, pss int64) []byte {
	b := make([]byte, n)
	for i := range b {
		b[i] = c13Byte(data, tag, int64(i), pss)
	}
	return b
}

func (r *chunkReader) Read(p []byte) (int, error) {
	if r.pos >= r.n {
		return 0, io.EOF
	}
	k := int64(len(p))
	if r.chunk > 0 && k > int64(r.chunk) {
		k = int64(r.chunk)
	}
	if k > r.n-r.pos {
		k = r.n - r.pos
	}
	for i := int64(0); i < k; i++ {
		p[i] = c13Byte(r.data, r.tag, r.pos+i, r.pss)
	}
	r.pos += k
	if r.eofWithData && r.pos >= r.n {
		return int(k), io.EOF
	}
	return int(k), nil
}

type capWriter struct {
	buf   bytes.Buffer
	limit int64
	total int64
}

func (w *capWriter) Write(p []byte) (int, error) {
	w.total += int64(len(p))
	if int64(w.buf.Len()) < w.limit {
		w.buf.Write(p)
	}
	return len(p), nil
}

func c13Exec(s map[string]string) map[string]any {
	ev := map[string]any{"shape": s}
	lss, _ := strconv.ParseInt(s["lss"], 10, 64)
	pss, _ := strconv.ParseInt(s["pss"], 10, 64)
	arr := 128 * 128 / lss
	low := int64(1)
	if s["kind"] == "gpt" {
		low = 2 + arr
	}
	start := map[string]int64{"low": low, "s2048": 2048, "s2p23m1": 1<<23 - 1, "s2p23": 1 << 23, "s2p23p1": 1<<23 + 1, "s2p32m1": 1<<32 - 1}[s["start"]]
	size := map[string]int64{"z1": 1, "z3": 3, "z9": 9, "z2048": 64}[s["size"]] // class "large": 64 sectors = many physical-sector chunks
	size2 := size
	if (start+size)%2 == 0 {
		size2 = size + 1 // target larger than source in half of the cases
	}
	start2 := int64(64)
	if start < 64+size2+2 {
		start2 = start + size + 8
	}
	end := start + size
	if start2+size2 > end {
		end = start2 + size2
	}
	devSize := (end + 2 + arr + 8) * lss
	d := memdev.NewPattern(devSize)
	var werr error
	if s["kind"] == "gpt" {
		t := &gpt.Table{LogicalSectorSize: int(lss), PhysicalSectorSize: int(pss), ProtectiveMBR: true, GUID: "5CA3360B-5DE6-4FCF-B4CE-419CEE433B51",
			Partitions: []*gpt.Partition{
				{Index: 1, Start: uint64(start), End: uint64(start + size - 1), Type: gpt.LinuxFilesystem, GUID: "5CA3360B-5DE6-4FCF-B4CE-419CEE433B52", Name: "src"},
				{Index: 2, Start: uint64(start2), End: uint64(start2 + size2 - 1), Type: gpt.LinuxFilesystem, GUID: "5CA3360B-5DE6-4FCF-B4CE-419CEE433B53", Name: "dst"}}}
		werr = t.Write(d, devSize)
	} else {
		t := &mbr.Table{LogicalSectorSize: int(lss), PhysicalSectorSize: int(pss), Partitions: []*mbr.Partition{
			{Index: 1, Type: mbr.Linux, Start: uint32(start), Size: uint32(size)},
			{Index: 2, Type: mbr.Linux, Start: uint32(start2), Size: uint32(size2)}}}
		werr = t.Write(d, devSize)
	}
	psize := size * lss
	ev["psize"] = strconv.FormatInt(psize, 10)
	bad := func(why string) map[string]any {
		ev["setup"] = why
		ev["w"] = map[string]any{"res": "err", "n": "0", "within": true, "outside": 0, "stored": false}
		ev["r"] = map[string]any{"res": "err", "n": "0", "exact": false, "writes": 0}
		ev["copy"] = map[string]any{"res": "err", "lead": false, "outside": 0}
		return ev
	}
	if werr != nil {
		return bad("table write: " + werr.Error())
	}
	var dk *disk.Disk
	var tb partition.Table
	var err error
	if p := fsx.Catch(func() {
		dk, err = diskfs.OpenBackend(file.New(d, false), diskfs.WithSectorSize(diskfs.SectorSize(lss)))
		if err == nil {
			dk.PhysicalBlocksize = pss
			tb, err = dk.GetPartitionTable()
		}
	}); p != "" || err != nil || tb == nil {
		return bad(fmt.Sprintf("open: %v %v", p, err))
	}
	if s["retable"] == "replace" && !(s["kind"] == "mbr" && start+4+size >= 1<<32) {
		// the caller keeps the table object: look the partitions up, move partition 1 by replacing its
		// entry in the same object, apply the table again
		var rerr error
		if p := fsx.Catch(func() {
			dk.GetPartition(1)
			dk.GetPartition(2)
			switch tt := tb.(type) {
			case *gpt.Table:
				np := *tt.Partitions[0]
				np.Start += 4
				np.End += 4
				tt.Partitions[0] = &np
			case *mbr.Table:
				np := *tt.Partitions[0]
				np.Start += 4
				tt.Partitions[0] = &np
			}
			rerr = dk.Partition(tb)
		}); p != "" || rerr != nil {
			return bad(fmt.Sprintf("re-applying the table: %v %v", p, rerr))
		}
		start += 4
	}
	// ---- write
	rl := map[string]int64{"zero": 0, "minus1": psize - 1, "exact": psize, "plus1": psize + 1}[s["rlen"]]
	ch := map[string]int{"whole": 0, "one": 1, "c513": 513, "pssp1": int(pss) + 1, "eofdata": 512}[s["chunk"]]
	var rd io.Reader = &chunkReader{tag: 7, n: rl, chunk: ch, data: s["data"], pss: pss, eofWithData: s["chunk"] == "eofdata"}
	if s["chunk"] == "seeked" {
		// a seekable source that was partly consumed already (a header in front of the payload): what counts
		// is what the reader still supplies from its current position
		const hdr = 4096
		br := bytes.NewReader(append(bytes.Repeat([]byte{0xA5}, hdr), c13Content(s["data"], 7, rl, pss)...))
		br.Seek(hdr, io.SeekStart)
		rd = br
	}
	p1 := memdev.Range{Off: start * lss, Len: psize}
	d.ResetLog()
	d.FailOutside = []memdev.Range{p1}
	var n int64
	w := map[string]any{"res": "ok"}
	if p := fsx.Catch(func() { n, err = dk.WritePartitionContents(1, rd) }); p != "" {
		w["res"] = "panic"
		w["panic"] = p
	} else if err != nil {
		w["res"] = "err"
		w["errtext"] = err.Error()
	}
	out := int64(0)
	for _, o := range d.Outside {
		out += o.Len
	}
	w["n"] = strconv.FormatInt(n, 10)
	w["within"] = len(d.Outside) == 0
	w["outside"] = out
	if len(d.Outside) > 0 {
		w["first_outside"] = fmt.Sprintf("%d+%d (partition is %d+%d)", d.Outside[0].Off, d.Outside[0].Len, p1.Off, p1.Len)
	}
	k := rl
	if k > psize {
		k = psize
	}
	w["stored"] = bytes.Equal(d.Bytes(p1.Off, k), c13Content(s["data"], 7, k, pss))
	ev["w"] = w
	// ---- read (fill the partition with known content first so that every byte is distinctive)
	d.FailOutside = nil
	d.WriteAt(c13Content(s["data"], 9, psize, pss), p1.Off)
	d.ResetLog()
	cw := &capWriter{limit: psize + 3*pss}
	r := map[string]any{"res": "ok"}
	if p := fsx.Catch(func() { n, err = dk.ReadPartitionContents(1, cw) }); p != "" {
		r["res"] = "panic"
	} else if err != nil {
		r["res"] = "err"
		r["errtext"] = err.Error()
	}
	r["n"] = strconv.FormatInt(n, 10)
	r["delivered"] = strconv.FormatInt(cw.total, 10)
	r["exact"] = cw.total == psize && bytes.Equal(cw.buf.Bytes(), d.Bytes(p1.Off, psize))
	r["writes"] = memdev.WriteAttempts(d.Log())
	ev["r"] = r
	// ---- copy 1 -> 2
	p2 := memdev.Range{Off: start2 * lss, Len: size2 * lss}
	d.ResetLog()
	d.FailOutside = []memdev.Range{p2}
	cp := map[string]any{"res": "ok"}
	if p := fsx.Catch(func() { err = dsync.CopyPartitionRaw(dk, 1, 2) }); p != "" {
		cp["res"] = "panic"
	} else if err != nil {
		cp["res"] = "err"
		cp["errtext"] = err.Error()
	}
	out = 0
	for _, o := range d.Outside {
		out += o.Len
	}
	cp["outside"] = out
	cp["lead"] = bytes.Equal(d.Bytes(p2.Off, psize), d.Bytes(p1.Off, psize))
	ev["copy"] = cp
	return ev
}

// c13Events enumerates the geometry tuples with TLC and executes them (shared with C03).
func c13Events(c *core.Ctx) (tuples []map[string]string, events []map[string]any, ok bool) {
	maxDev := 3
	if c.Tier == "thorough" {
		maxDev = 9
	}
	cfg := fmt.Sprintf("SPECIFICATION Spec\nCONSTANT MaxDev = %d\nINVARIANT Emit\nCHECK_DEADLOCK FALSE\n", maxDev)
	gen, err := tlc.Run(tlc.Opts{Module: "PartIO_Gen", Config: "gen.cfg", Workers: 1, Files: map[string][]byte{"gen.cfg": []byte(cfg)}, Timeout: 15 * time.Minute})
	if err != nil || !gen.OK {
		c.Broken("PartIO_Gen: %v", err)
		return nil, nil, false
	}
	c.States, c.Transitions = gen.Distinct, gen.Generated
	c.Exhaustive = true
	seen := map[string]bool{}
	tuples = nil
	for _, l := range gen.Beh {
		if seen[l] {
			continue
		}
		seen[l] = true
		var t map[string]string
		if json.Unmarshal([]byte(l), &t) != nil {
			c.Broken("bad tuple %s", l)
			return nil, nil, false
		}
		tuples = append(tuples, t)
	}
	sort.Slice(tuples, func(i, j int) bool { return fmt.Sprint(tuples[i]) < fmt.Sprint(tuples[j]) })
	events = make([]map[string]any, len(tuples))
	parallel(len(tuples), func(i int) { events[i] = c13Exec(tuples[i]) })
	return tuples, events, true
}

func C13(c *core.Ctx) {
	c.Rule = "case = one geometry tuple of PartIO.tla (GPT/MBR x start class incl. start*sector >= 2^32 and start = 2^32-1 sectors x size x logical 512/4096 x physical 512/4096 (pss != lss) x reader length {0,size-1,size,size+1} x chunking {whole,1 byte,513,pss+1, last piece together with io.EOF, seekable source already consumed up to a header} x content {non-zero pattern, all zeroes, pattern with zeroed physical sectors} streamed onto non-zero previous content x table object re-applied after partition 1 was replaced in it), all tuples within MaxDev deviations of the base tuple (quick 3, thorough 9 = full product), enumerated by TLC; every tuple is non-trivial (distinct key = tuple); plus the composition behaviours of Disk.tla (raw clause of Disk_Trace: WritePartitionContents / ReadPartitionContents / CopyPartitionRaw between three slots of one GPT or MBR disk, interleaved with table rewrites and filesystem traffic)"
	c.Assumptions = []string{"sparse pattern-filled memdev; byte counts are decimal strings for TLC", "CopyPartitionRaw is exercised with a target at least as large as the source"}
	tuples, events, ok := c13Events(c)
	if !ok {
		return
	}
	var trace bytes.Buffer
	for i, ev := range events {
		js, _ := json.Marshal(ev)
		trace.Write(js)
		trace.WriteByte('\n')
		c.AddEval(1)
		c.Distinct(fmt.Sprint(tuples[i]))
		if i%211 == 3 {
			c.Sample(ev)
		}
		if ev["setup"] != nil {
			c.Broken("setup failed for %v: %v", tuples[i], ev["setup"])
		}
	}
	tv, err := tlc.ValidateTrace("PartIO_Trace", "PartIO_Trace.cfg", trace.Bytes(), nil, 20*time.Minute, false)
	if err != nil {
		c.Broken("PartIO_Trace: %v", err)
		return
	}
	for k, idx := range tv.Mismatches {
		ev := events[idx-1]
		s := tuples[idx-1]
		which := "write"
		for _, wch := range []string{"read", "copy"} {
			if bytes.Contains([]byte(tv.Details[k]), []byte(`"`+wch+`"`)) {
				which = wch
			}
		}
		sig := c13Sig(which, s, ev)
		c.Fail([]string{sig}, fmt.Sprintf("%s failed for %v: %s", which, s, trunc(ev[map[string]string{"write": "w", "read": "r", "copy": "copy"}[which]])), map[string]any{"tuple": s, "event": ev})
	}
	c.TracesValidated = int64(len(events) - len(tv.Mismatches))
	c.Extra["tuples"] = len(tuples)
	// the composition (Disk.tla): raw contents written, read and copied between three slots of one disk
	dkRunAll(c, "C13")
}

func c13Sig(which string, s map[string]string, ev map[string]any) string {
	k := s["kind"]
	switch which {
	case "write":
		w := ev["w"].(map[string]any)
		switch {
		case w["res"] == "panic":
			return k + "-writecontents-panic"
		case w["within"] != true:
			return k + "-writecontents-outside-partition"
		case (w["res"] == "ok") != (s["rlen"] == "exact"):
			return k + "-writecontents-size-enforcement-" + s["rlen"]
		}
		return k + "-writecontents-wrong-bytes"
	case "read":
		r := ev["r"].(map[string]any)
		if r["res"] != "ok" {
			return k + "-readcontents-error"
		}
		if r["n"] != ev["psize"] {
			return k + "-readcontents-count"
		}
		return k + "-readcontents-wrong-bytes"
	}
	return k + "-copyraw"
}
