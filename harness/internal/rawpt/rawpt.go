// Package rawpt is an independent (shares no code with go-diskfs) parser of GPT and MBR
// partition tables, used as the "independent parser" projection of C02/C14/C15.
package rawpt

import (
	"encoding/binary"
	"fmt"
	"hash/crc32"
	"io"
	"strings"
	"unicode/utf16"
)

type Entry struct {
	Index int    `json:"idx"`
	Type  string `json:"type"`
	GUID  string `json:"guid"`
	Start uint64 `json:"start"`
	End   uint64 `json:"end"`
	Attr  uint64 `json:"attr"`
	Name  string `json:"name"`
}

type Header struct {
	Present  bool   // could be read at all
	SigOK    bool   // "EFI PART"
	Revision uint32
	HdrSize  uint32
	HdrCRCOK bool
	Reserved uint32
	MyLBA    uint64
	AltLBA   uint64
	First    uint64
	Last     uint64
	GUID     string
	ArrLBA   uint64
	Count    uint32
	ESize    uint32
	ArrCRC   uint32
	ArrCRCOK bool
	ArrRead  bool
	Entries  []Entry
	ArrRaw   []byte
	TailZero bool // bytes after the header up to the sector end are zero
}

type PMBREntry struct {
	Boot  byte
	Type  byte
	Start uint32
	Size  uint32
	Raw   [16]byte
}

type MBR struct {
	Present bool
	SigOK   bool
	Slots   [4]PMBREntry
}

type GPT struct {
	LSS     int
	Sectors uint64
	MBR     MBR
	Primary Header
	Backup  Header
}

// GUIDString converts the mixed-endian on-disk GUID into canonical upper-case text.
func GUIDString(b []byte) string {
	if len(b) < 16 {
		return ""
	}
	return strings.ToUpper(fmt.Sprintf("%08x-%04x-%04x-%02x%02x-%02x%02x%02x%02x%02x%02x",
		binary.LittleEndian.Uint32(b[0:4]), binary.LittleEndian.Uint16(b[4:6]), binary.LittleEndian.Uint16(b[6:8]),
		b[8], b[9], b[10], b[11], b[12], b[13], b[14], b[15]))
}

func ParseMBR(r io.ReaderAt) MBR {
	var m MBR
	b := make([]byte, 512)
	if n, _ := r.ReadAt(b, 0); n != 512 {
		return m
	}
	m.Present = true
	m.SigOK = b[510] == 0x55 && b[511] == 0xaa
	for i := 0; i < 4; i++ {
		e := b[446+16*i : 446+16*i+16]
		s := &m.Slots[i]
		s.Boot, s.Type = e[0], e[4]
		s.Start = binary.LittleEndian.Uint32(e[8:12])
		s.Size = binary.LittleEndian.Uint32(e[12:16])
		copy(s.Raw[:], e)
	}
	return m
}

func parseHeader(r io.ReaderAt, lba uint64, lss int, devSize int64, maxArr int64) Header {
	var h Header
	sec := make([]byte, lss)
	off := int64(lba) * int64(lss)
	if off < 0 || off+int64(lss) > devSize {
		return h
	}
	if n, _ := r.ReadAt(sec, off); n != lss {
		return h
	}
	h.Present = true
	h.SigOK = string(sec[0:8]) == "EFI PART"
	h.Revision = binary.LittleEndian.Uint32(sec[8:12])
	h.HdrSize = binary.LittleEndian.Uint32(sec[12:16])
	crc := binary.LittleEndian.Uint32(sec[16:20])
	h.Reserved = binary.LittleEndian.Uint32(sec[20:24])
	h.MyLBA = binary.LittleEndian.Uint64(sec[24:32])
	h.AltLBA = binary.LittleEndian.Uint64(sec[32:40])
	h.First = binary.LittleEndian.Uint64(sec[40:48])
	h.Last = binary.LittleEndian.Uint64(sec[48:56])
	h.GUID = GUIDString(sec[56:72])
	h.ArrLBA = binary.LittleEndian.Uint64(sec[72:80])
	h.Count = binary.LittleEndian.Uint32(sec[80:84])
	h.ESize = binary.LittleEndian.Uint32(sec[84:88])
	h.ArrCRC = binary.LittleEndian.Uint32(sec[88:92])
	if h.HdrSize >= 92 && int(h.HdrSize) <= lss {
		c := make([]byte, h.HdrSize)
		copy(c, sec[:h.HdrSize])
		c[16], c[17], c[18], c[19] = 0, 0, 0, 0
		h.HdrCRCOK = crc32.ChecksumIEEE(c) == crc
	}
	h.TailZero = true
	for _, x := range sec[92:] {
		if x != 0 {
			h.TailZero = false
		}
	}
	total := int64(h.Count) * int64(h.ESize)
	aoff := int64(h.ArrLBA) * int64(lss)
	if h.ESize >= 128 && total > 0 && total <= maxArr && aoff > 0 && aoff+total <= devSize && h.ArrLBA < 1<<50 {
		arr := make([]byte, total)
		if n, _ := r.ReadAt(arr, aoff); int64(n) == total {
			h.ArrRead = true
			h.ArrRaw = arr
			h.ArrCRCOK = crc32.ChecksumIEEE(arr) == h.ArrCRC
			for i := 0; i < int(h.Count); i++ {
				e := arr[i*int(h.ESize) : (i+1)*int(h.ESize)]
				zero := true
				for _, x := range e[0:16] {
					if x != 0 {
						zero = false
					}
				}
				if zero {
					continue
				}
				var u []uint16
				for k := 56; k+1 < 128; k += 2 {
					w := binary.LittleEndian.Uint16(e[k : k+2])
					if w == 0 {
						break
					}
					u = append(u, w)
				}
				h.Entries = append(h.Entries, Entry{Index: i + 1, Type: GUIDString(e[0:16]), GUID: GUIDString(e[16:32]),
					Start: binary.LittleEndian.Uint64(e[32:40]), End: binary.LittleEndian.Uint64(e[40:48]),
					Attr: binary.LittleEndian.Uint64(e[48:56]), Name: string(utf16.Decode(u))})
			}
		}
	}
	return h
}

// ParseGPT reads LBA0, the primary header at LBA1 and the backup header at the last LBA.
func ParseGPT(r io.ReaderAt, devSize int64, lss int) GPT {
	g := GPT{LSS: lss, Sectors: uint64(devSize / int64(lss))}
	g.MBR = ParseMBR(r)
	g.Primary = parseHeader(r, 1, lss, devSize, 1<<24)
	if g.Sectors >= 2 {
		g.Backup = parseHeader(r, g.Sectors-1, lss, devSize, 1<<24)
	}
	return g
}

// Valid reports the statement's on-disk validity conditions for a GPT; the returned list
// names each failed condition (empty = valid).
func (g GPT) Valid() []string {
	var bad []string
	chk := func(ok bool, what string) {
		if !ok {
			bad = append(bad, what)
		}
	}
	p, b := g.Primary, g.Backup
	chk(p.Present && p.SigOK, "primary signature")
	chk(p.HdrCRCOK, "primary header CRC")
	chk(p.ArrRead && p.ArrCRCOK, "primary array CRC")
	chk(b.Present && b.SigOK, "backup header at last sector")
	chk(b.HdrCRCOK, "backup header CRC")
	chk(b.ArrRead && b.ArrCRCOK, "backup array CRC")
	chk(p.MyLBA == 1, "primary MyLBA = 1")
	chk(p.AltLBA == g.Sectors-1, "primary AlternateLBA = last sector")
	chk(b.MyLBA == g.Sectors-1, "backup MyLBA = last sector")
	chk(b.AltLBA == 1, "backup AlternateLBA = 1")
	chk(p.First == b.First && p.Last == b.Last && p.GUID == b.GUID && p.Count == b.Count && p.ESize == b.ESize && p.ArrCRC == b.ArrCRC, "backup header mirrors primary")
	chk(p.ArrRead && b.ArrRead && string(p.ArrRaw) == string(b.ArrRaw), "backup array equals primary array")
	if p.ESize > 0 && g.LSS > 0 {
		arrSecs := (uint64(p.Count)*uint64(p.ESize) + uint64(g.LSS) - 1) / uint64(g.LSS)
		chk(p.ArrLBA >= 2 && p.ArrLBA+arrSecs <= p.First, "primary array before first usable LBA")
		chk(b.ArrLBA > p.Last && b.ArrLBA+arrSecs <= g.Sectors-1, "backup array between last usable LBA and backup header")
		chk(p.First <= p.Last+1 && p.Last < g.Sectors-1, "usable range")
	}
	chk(p.Revision == 0x00010000 && p.HdrSize == 92 && p.Reserved == 0, "revision/size/reserved")
	// protective MBR covers the disk
	m := g.MBR
	chk(m.Present && m.SigOK, "protective MBR signature")
	want := g.Sectors - 1
	if want > 0xFFFFFFFF {
		want = 0xFFFFFFFF
	}
	chk(m.Slots[0].Type == 0xEE && m.Slots[0].Start == 1 && uint64(m.Slots[0].Size) == want, fmt.Sprintf("protective MBR covers the disk (size field %d, want %d)", m.Slots[0].Size, want))
	for i := 1; i < 4; i++ {
		chk(m.Slots[i].Type == 0 && m.Slots[i].Start == 0 && m.Slots[i].Size == 0, "protective MBR other slots empty")
	}
	return bad
}
