// Package tlc runs TLC on the specifications under /verif/spec in a scratch copy and
// parses what the harness needs: final statistics, emitted behaviours (BEH lines),
// per-action coverage and trace-validation verdicts.
package tlc

import (
	"bufio"
	"bytes"
	"context"
	"fmt"
	"os"
	"os/exec"
	"path/filepath"
	"regexp"
	"strconv"
	"strings"
	"sync/atomic"
	"time"
)

const (
	jar  = "/opt/veriftools/tla/tla2tools.jar"
	cmod = "/opt/veriftools/tla/CommunityModules-deps.jar"
)

var SpecDir = "/verif/spec"
var WorkDir = "/verif/.work"

// development aid: a scratch copy of the specifications can be used instead of /verif/spec
func init() {
	if v := os.Getenv("VERIF_SPECDIR"); v != "" {
		SpecDir = v
	}
}

type Opts struct {
	Module   string            // e.g. "Handle_MC" (file Module.tla)
	Config   string            // e.g. "Handle_MC.cfg"
	Workers  int               // 0 => 1
	Simulate string            // e.g. "num=100" ; "" => BFS
	Depth    int               // -depth for simulate
	Seed     int64             // -seed
	Timeout  time.Duration     // 0 => 5 min
	Files    map[string][]byte // extra files written into the scratch dir (traces, generated modules)
	Coverage bool              // -coverage 1
	DFS      bool              // StateDeque queue (trace specs that branch)
	Deadlock bool              // true => pass -deadlock (disable deadlock check)
	HeapMB   int               // 0 => 4096
	Keep     bool              // keep scratch dir (debug)
	MaxBeh   int               // stop collecting BEH after this many (0 = unlimited)
}

type Result struct {
	Generated int64
	Distinct  int64
	Depth     int
	OK        bool   // finished with "No error has been found"
	Violated  string // name of violated invariant / property / "deadlock" / "postcondition" / "assert"
	Beh       []string
	Prints    []string // other PrintT lines that start with <<"
	Coverage  map[string]int64
	Out       string
	Wall      float64
	TimedOut  bool
	Dir       string
}

var seq int64

var (
	reStats  = regexp.MustCompile(`(?m)^(\d+) states generated, (\d+) distinct states found`)
	reDepth  = regexp.MustCompile(`The depth of the complete state graph search is (\d+)`)
	reInv    = regexp.MustCompile(`Invariant (\S+) is violated`)
	reProp   = regexp.MustCompile(`(?:Action property|Temporal properties?|property) (\S+)? ?(?:is|were) violated`)
	reCov    = regexp.MustCompile(`^<(\w+) line \d+, col \d+ to line \d+, col \d+ of module (\w+)>: (\d+):(\d+)`)
	reSimGen = regexp.MustCompile(`The number of states generated: (\d+)`)
)

func Run(o Opts) (*Result, error) {
	if o.Workers <= 0 {
		o.Workers = 1
	}
	if o.Timeout == 0 {
		o.Timeout = 5 * time.Minute
	}
	if o.HeapMB == 0 {
		o.HeapMB = 4096
	}
	n := atomic.AddInt64(&seq, 1)
	dir := filepath.Join(WorkDir, fmt.Sprintf("tlc-%d-%d", os.Getpid(), n))
	if err := os.MkdirAll(dir, 0o755); err != nil {
		return nil, err
	}
	if !o.Keep && os.Getenv("VERIF_KEEP") == "" {
		defer os.RemoveAll(dir)
	}
	ents, err := os.ReadDir(SpecDir)
	if err != nil {
		return nil, err
	}
	for _, e := range ents {
		if e.IsDir() {
			continue
		}
		nm := e.Name()
		if !(strings.HasSuffix(nm, ".tla") || strings.HasSuffix(nm, ".cfg")) {
			continue
		}
		b, err := os.ReadFile(filepath.Join(SpecDir, nm))
		if err != nil {
			return nil, err
		}
		if err := os.WriteFile(filepath.Join(dir, nm), b, 0o644); err != nil {
			return nil, err
		}
	}
	for nm, b := range o.Files {
		if err := os.WriteFile(filepath.Join(dir, nm), b, 0o644); err != nil {
			return nil, err
		}
	}
	// TLC unpacks its standard modules under java.io.tmpdir (tlc-NNN): keep that inside the scratch dir
	jtmp := filepath.Join(dir, "jtmp")
	_ = os.MkdirAll(jtmp, 0o755)
	args := []string{"-XX:+UseParallelGC", fmt.Sprintf("-Xmx%dm", o.HeapMB), "-Xss256m", "-Djava.io.tmpdir=" + jtmp}
	if o.DFS {
		args = append(args, "-Dtlc2.tool.queue.IStateQueue=StateDeque")
	}
	args = append(args, "-cp", jar+":"+cmod, "tlc2.TLC",
		"-workers", strconv.Itoa(o.Workers), "-metadir", filepath.Join(dir, "meta"),
		"-config", o.Config, "-noGenerateSpecTE")
	if o.Simulate != "" {
		args = append(args, "-simulate", o.Simulate)
		if o.Depth > 0 {
			args = append(args, "-depth", strconv.Itoa(o.Depth))
		}
	}
	if o.Seed != 0 {
		args = append(args, "-seed", strconv.FormatInt(o.Seed, 10))
	}
	if o.Coverage {
		args = append(args, "-coverage", "1")
	}
	if o.Deadlock {
		args = append(args, "-deadlock")
	}
	args = append(args, o.Module+".tla")
	ctx, cancel := context.WithTimeout(context.Background(), o.Timeout)
	defer cancel()
	cmd := exec.CommandContext(ctx, "java", args...)
	cmd.Dir = dir
	cmd.Env = append(os.Environ(), "JAVA_TOOL_OPTIONS=")
	var buf bytes.Buffer
	cmd.Stdout = &buf
	cmd.Stderr = &buf
	t0 := time.Now()
	runErr := cmd.Run()
	res := &Result{Wall: time.Since(t0).Seconds(), Coverage: map[string]int64{}, Dir: dir}
	if ctx.Err() == context.DeadlineExceeded {
		res.TimedOut = true
	}
	out := buf.String()
	res.Out = out
	sc := bufio.NewScanner(strings.NewReader(out))
	sc.Buffer(make([]byte, 1<<20), 1<<28)
	for sc.Scan() {
		ln := sc.Text()
		if strings.HasPrefix(ln, `<<"BEH", "`) && strings.HasSuffix(ln, `">>`) {
			if o.MaxBeh == 0 || len(res.Beh) < o.MaxBeh {
				res.Beh = append(res.Beh, unescape(ln[len(`<<"BEH", "`):len(ln)-3]))
			}
			continue
		}
		if strings.HasPrefix(ln, `<<"`) && len(res.Prints) < 1000 {
			res.Prints = append(res.Prints, ln)
			continue
		}
		if m := reCov.FindStringSubmatch(ln); m != nil {
			v, _ := strconv.ParseInt(m[4], 10, 64)
			res.Coverage[m[1]] += v
		}
	}
	if ms := reStats.FindAllStringSubmatch(out, -1); len(ms) > 0 {
		m := ms[len(ms)-1]
		res.Generated, _ = strconv.ParseInt(m[1], 10, 64)
		res.Distinct, _ = strconv.ParseInt(m[2], 10, 64)
	} else if m := reSimGen.FindStringSubmatch(out); m != nil {
		res.Generated, _ = strconv.ParseInt(m[1], 10, 64)
	}
	if m := reDepth.FindStringSubmatch(out); m != nil {
		res.Depth, _ = strconv.Atoi(m[1])
	}
	switch {
	case strings.Contains(out, "No error has been found"):
		res.OK = true
	case reInv.MatchString(out):
		res.Violated = reInv.FindStringSubmatch(out)[1]
	case strings.Contains(out, "Deadlock reached"):
		res.Violated = "deadlock"
	case strings.Contains(out, "ostcondition") && strings.Contains(out, "violated"):
		res.Violated = "postcondition"
	case strings.Contains(out, "is violated") || strings.Contains(out, "was violated") || strings.Contains(out, "were violated"):
		res.Violated = "property"
	case strings.Contains(out, "The first argument of Assert evaluated to FALSE"):
		res.Violated = "assert"
	}
	// simulation mode finishes without the "No error" line when num= is reached
	if o.Simulate != "" && res.Violated == "" && !res.TimedOut && runErr == nil {
		res.OK = true
	}
	if !res.OK && res.Violated == "" && !res.TimedOut {
		msg := tail(out, 3000)
		if i := strings.Index(out, "Error:"); i >= 0 {
			msg = out[i:]
			if len(msg) > 3000 {
				msg = msg[:3000]
			}
		}
		return res, fmt.Errorf("tlc failed (%v): %s", runErr, msg)
	}
	return res, nil
}

func tail(s string, n int) string {
	if len(s) <= n {
		return s
	}
	return s[len(s)-n:]
}

// unescape undoes TLC's string printing (\" and \\).
func unescape(s string) string {
	var b strings.Builder
	for i := 0; i < len(s); i++ {
		if s[i] == '\\' && i+1 < len(s) {
			switch s[i+1] {
			case '"':
				b.WriteByte('"')
				i++
				continue
			case '\\':
				b.WriteByte('\\')
				i++
				continue
			case 'n':
				b.WriteByte('\n')
				i++
				continue
			case 't':
				b.WriteByte('\t')
				i++
				continue
			}
		}
		b.WriteByte(s[i])
	}
	return b.String()
}

// TraceVerdict is the outcome of validating an ndjson trace (many behaviours, each
// starting with a Reset event) with a *_Trace spec.  The trace specs print
// <<"MISMATCH", l, event>> for an event that no spec step explains and skip to the next
// behaviour; a POSTCONDITION (high-water mark of l in TLC register 1) makes sure the
// whole trace was consumed.
type TraceVerdict struct {
	Consumed   bool     // every line of the trace was reached
	Mismatches []int    // 1-based indices of events the spec could not explain
	Details    []string // printed tuple per mismatch (truncated)
	InvViolated string  // a spec invariant failed on a state reached by matching steps
	Drifts       []int    // events whose outcome satisfies the property but differs from the model's prediction
	DriftDetails []string
	Res        *Result
}

var reMis = regexp.MustCompile(`<<\s*"MISMATCH",\s*(\d+),`)
var reDrift = regexp.MustCompile(`<<\s*"DRIFT",\s*(\d+),`)

func ValidateTrace(module, cfg string, trace []byte, extra map[string][]byte, timeout time.Duration, dfs bool) (*TraceVerdict, error) {
	files := map[string][]byte{"trace.ndjson": trace}
	for k, v := range extra {
		files[k] = v
	}
	res, err := Run(Opts{Module: module, Config: cfg, Workers: 1, Files: files, Timeout: timeout, DFS: dfs})
	v := &TraceVerdict{Res: res}
	if err != nil {
		return v, err
	}
	if res.TimedOut {
		return v, fmt.Errorf("tlc trace validation timed out")
	}
	for _, m := range reMis.FindAllStringSubmatchIndex(res.Out, -1) {
		idx, _ := strconv.Atoi(res.Out[m[2]:m[3]])
		v.Mismatches = append(v.Mismatches, idx)
		end := m[0] + 500
		if end > len(res.Out) {
			end = len(res.Out)
		}
		d := res.Out[m[0]:end]
		if i := strings.Index(d, ">>"); i > 0 {
			d = d[:i+2]
		}
		v.Details = append(v.Details, strings.Join(strings.Fields(d), " "))
	}
	for _, m := range reDrift.FindAllStringSubmatchIndex(res.Out, -1) {
		idx, _ := strconv.Atoi(res.Out[m[2]:m[3]])
		v.Drifts = append(v.Drifts, idx)
		end := m[0] + 700
		if end > len(res.Out) {
			end = len(res.Out)
		}
		v.DriftDetails = append(v.DriftDetails, strings.Join(strings.Fields(res.Out[m[0]:end]), " "))
	}
	if res.OK {
		v.Consumed = true
		return v, nil
	}
	if res.Violated == "postcondition" || strings.Contains(res.Out, `"REJECTED"`) {
		return v, fmt.Errorf("trace not consumed to the end: %s", tail(res.Out, 1500))
	}
	if res.Violated != "" {
		v.InvViolated = res.Violated + ": " + tail(res.Out, 1500)
		return v, nil
	}
	return v, fmt.Errorf("tlc: trace neither accepted nor rejected: %s", tail(res.Out, 2000))
}
