// Package rawiso is an independent reader of ISO9660 images (primary volume descriptor
// tree, path table) and of the squashfs superblock; it shares no code with go-diskfs.
package rawiso

import (
	"crypto/sha256"
	"encoding/binary"
	"encoding/hex"
	"fmt"
	"io"
	"sort"
)

type Ent struct {
	Path  string
	Name  string // ISO identifier as recorded (with ;1 if present)
	IsDir bool
	LBA   uint32
	Size  uint32
	Hash  string
	Flags byte
}

type ISO struct {
	BS            int64
	VolumeBlocks  uint32
	LogicalBS     uint16
	PathTableSize uint32
	LPathLBA      uint32
	VolumeID      string
	Entries       []Ent
	Problems      []string
	PathTableDirs []uint32 // LBAs named by the L path table
	HasSVD        bool
}

func rd(r io.ReaderAt, off, n int64) ([]byte, error) {
	b := make([]byte, n)
	k, err := r.ReadAt(b, off)
	if int64(k) != n {
		return nil, fmt.Errorf("short read at %d: %v", off, err)
	}
	return b, nil
}

// ParseISO walks the primary volume descriptor's directory tree of the image at
// [start,start+size) written with logical block size bs.
func ParseISO(r io.ReaderAt, start, size, bs int64) (*ISO, error) {
	v := &ISO{BS: bs}
	var pvd []byte
	for i := int64(16); i < 64; i++ {
		d, err := rd(r, start+i*bs, 2048)
		if err != nil {
			return nil, err
		}
		if string(d[1:6]) != "CD001" {
			return nil, fmt.Errorf("no volume descriptor at block %d", i)
		}
		if d[0] == 1 && pvd == nil {
			pvd = d
		}
		if d[0] == 2 {
			v.HasSVD = true
		}
		if d[0] == 255 {
			break
		}
	}
	if pvd == nil {
		return nil, fmt.Errorf("no primary volume descriptor")
	}
	v.VolumeID = string(pvd[40:72])
	v.VolumeBlocks = binary.LittleEndian.Uint32(pvd[80:84])
	v.LogicalBS = binary.LittleEndian.Uint16(pvd[128:130])
	v.PathTableSize = binary.LittleEndian.Uint32(pvd[132:136])
	v.LPathLBA = binary.LittleEndian.Uint32(pvd[140:144])
	if binary.BigEndian.Uint32(pvd[84:88]) != v.VolumeBlocks {
		v.Problems = append(v.Problems, "volume space size: both-endian halves differ")
	}
	if int64(v.LogicalBS) != bs {
		v.Problems = append(v.Problems, fmt.Sprintf("logical block size %d in the descriptor, image built with %d", v.LogicalBS, bs))
	}
	if int64(v.VolumeBlocks)*bs > size {
		v.Problems = append(v.Problems, fmt.Sprintf("volume space %d blocks of %d exceeds the range of %d bytes", v.VolumeBlocks, bs, size))
	}
	root := pvd[156:190]
	rootLBA := binary.LittleEndian.Uint32(root[2:6])
	rootSize := binary.LittleEndian.Uint32(root[10:14])
	limit := int64(v.VolumeBlocks) * bs
	seenDirs := map[uint32]bool{}
	var walk func(prefix string, lba, dsize uint32, depth int)
	walk = func(prefix string, lba, dsize uint32, depth int) {
		if depth > 32 || seenDirs[lba] {
			v.Problems = append(v.Problems, "directory loop or depth > 32 at "+prefix)
			return
		}
		seenDirs[lba] = true
		if int64(lba)*bs+int64(dsize) > limit {
			v.Problems = append(v.Problems, fmt.Sprintf("directory %q extent [%d,+%d) outside the volume", prefix, lba, dsize))
			return
		}
		data, err := rd(r, start+int64(lba)*bs, int64(dsize))
		if err != nil {
			v.Problems = append(v.Problems, err.Error())
			return
		}
		for off := int64(0); off < int64(len(data)); {
			l := int64(data[off])
			if l == 0 { // no more records in this block
				off = (off/bs + 1) * bs
				continue
			}
			if off+l > int64(len(data)) {
				v.Problems = append(v.Problems, fmt.Sprintf("directory %q: record of length %d at %d runs past the directory's data length %d", prefix, l, off, len(data)))
				return
			}
			if off%bs+l > bs || l < 34 {
				v.Problems = append(v.Problems, fmt.Sprintf("directory %q: record of length %d at %d crosses a block boundary or is too short", prefix, l, off))
				return
			}
			rec := data[off : off+l]
			off += l
			nl := int(rec[32])
			if 33+nl > len(rec) {
				v.Problems = append(v.Problems, "record name overruns the record")
				return
			}
			name := string(rec[33 : 33+nl])
			if name == "\x00" || name == "\x01" {
				continue
			}
			e := Ent{Name: name, IsDir: rec[25]&2 != 0, LBA: binary.LittleEndian.Uint32(rec[2:6]), Size: binary.LittleEndian.Uint32(rec[10:14]), Flags: rec[25]}
			if binary.BigEndian.Uint32(rec[6:10]) != e.LBA || binary.BigEndian.Uint32(rec[14:18]) != e.Size {
				v.Problems = append(v.Problems, "both-endian fields differ in record "+name)
			}
			e.Path = name
			if prefix != "" {
				e.Path = prefix + "/" + name
			}
			if !e.IsDir {
				if int64(e.LBA)*bs+int64(e.Size) > limit {
					v.Problems = append(v.Problems, fmt.Sprintf("file %q extent [%d,+%d) outside the volume of %d blocks", e.Path, e.LBA, e.Size, v.VolumeBlocks))
				} else if d, err := rd(r, start+int64(e.LBA)*bs, int64(e.Size)); err == nil {
					h := sha256.Sum256(d)
					e.Hash = hex.EncodeToString(h[:8])
				}
			}
			v.Entries = append(v.Entries, e)
			if e.IsDir {
				walk(e.Path, e.LBA, e.Size, depth+1)
			}
		}
	}
	walk("", rootLBA, rootSize, 0)
	// extents of non-empty files must be pairwise disjoint and must not overlap directories
	type span struct {
		lo, hi int64
		what   string
	}
	var spans []span
	spans = append(spans, span{int64(rootLBA) * bs, int64(rootLBA)*bs + int64(rootSize), "root directory"})
	for _, e := range v.Entries {
		if e.Size > 0 {
			spans = append(spans, span{int64(e.LBA) * bs, int64(e.LBA)*bs + int64(e.Size), e.Path})
		}
	}
	sort.Slice(spans, func(i, j int) bool { return spans[i].lo < spans[j].lo })
	for i := 1; i < len(spans); i++ {
		if spans[i].lo < spans[i-1].hi {
			v.Problems = append(v.Problems, fmt.Sprintf("extents overlap: %q and %q", spans[i-1].what, spans[i].what))
			break
		}
	}
	// L path table
	if v.PathTableSize > 0 && int64(v.LPathLBA)*bs+int64(v.PathTableSize) <= limit {
		pt, err := rd(r, start+int64(v.LPathLBA)*bs, int64(v.PathTableSize))
		if err == nil {
			for off := 0; off+8 <= len(pt); {
				nl := int(pt[off])
				if nl == 0 {
					break
				}
				v.PathTableDirs = append(v.PathTableDirs, binary.LittleEndian.Uint32(pt[off+2:off+6]))
				off += 8 + nl + nl%2
			}
		}
		dirLBAs := map[uint32]bool{rootLBA: true}
		nd := 1
		for _, e := range v.Entries {
			if e.IsDir {
				dirLBAs[e.LBA] = true
				nd++
			}
		}
		if len(v.PathTableDirs) != nd {
			v.Problems = append(v.Problems, fmt.Sprintf("path table names %d directories, the tree has %d", len(v.PathTableDirs), nd))
		}
		for _, l := range v.PathTableDirs {
			if !dirLBAs[l] {
				v.Problems = append(v.Problems, fmt.Sprintf("path table entry points at block %d which is no directory of the tree", l))
				break
			}
		}
	} else {
		v.Problems = append(v.Problems, "path table missing or outside the volume")
	}
	return v, nil
}

// SquashSB is the squashfs superblock.
type SquashSB struct {
	MagicOK    bool
	Inodes     uint32
	BlockSize  uint32
	Frags      uint32
	Compressor uint16
	BlockLog   uint16
	Flags      uint16
	IDCount    uint16
	Major      uint16
	Minor      uint16
	BytesUsed  uint64
	Tables     map[string]uint64
}

func ParseSquashSB(r io.ReaderAt, start int64) (*SquashSB, error) {
	b, err := rd(r, start, 96)
	if err != nil {
		return nil, err
	}
	s := &SquashSB{Tables: map[string]uint64{}}
	s.MagicOK = binary.LittleEndian.Uint32(b[0:4]) == 0x73717368
	s.Inodes = binary.LittleEndian.Uint32(b[4:8])
	s.BlockSize = binary.LittleEndian.Uint32(b[12:16])
	s.Frags = binary.LittleEndian.Uint32(b[16:20])
	s.Compressor = binary.LittleEndian.Uint16(b[20:22])
	s.BlockLog = binary.LittleEndian.Uint16(b[22:24])
	s.Flags = binary.LittleEndian.Uint16(b[24:26])
	s.IDCount = binary.LittleEndian.Uint16(b[26:28])
	s.Major = binary.LittleEndian.Uint16(b[28:30])
	s.Minor = binary.LittleEndian.Uint16(b[30:32])
	s.BytesUsed = binary.LittleEndian.Uint64(b[40:48])
	for i, n := range []string{"id", "xattr", "inode", "dir", "frag", "export"} {
		s.Tables[n] = binary.LittleEndian.Uint64(b[48+8*i : 56+8*i])
	}
	return s, nil
}
