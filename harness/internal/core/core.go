// Package core holds what every check shares: tier/seed handling, the known-findings
// matcher, VIOLATION / KNOWN-FINDING reporting, replay files and the evidence writer.
package core

import (
	"crypto/sha1"
	"encoding/json"
	"fmt"
	"os"
	"path/filepath"
	"sort"
	"strconv"
	"strings"
	"sync"
	"time"
)

// Root is /verif; a development run may point it at a scratch copy (evidence, replay files, known findings)
var Root = func() string {
	if v := os.Getenv("VERIF_ROOT"); v != "" {
		return v
	}
	return "/verif"
}()

type Finding struct {
	Property string `json:"property"`
	ID       string `json:"id"`
	Status   string `json:"status"` // open | fixed
	Commit   string `json:"commit,omitempty"`
	What     string `json:"what"`
}

type Ctx struct {
	Prop  string
	Tier  string
	Seed  int64
	Level string
	Start time.Time

	mu        sync.Mutex
	known     map[string]Finding // open findings for this property by id
	knownHits map[string]int
	knownEx   map[string]string
	viol      []violation
	broken    []string

	// coverage, filled by the check
	States, Transitions int64
	TracesValidated     int64
	Evaluations         int64
	distinct            map[string]struct{}
	Rule                string
	Samples             []any
	Exhaustive          bool
	Assumptions         []string
	Extra               map[string]any
}

type violation struct {
	Class  string
	Detail string
	Replay string
	Count  int
}

func NewCtx(prop, tier, level string) *Ctx {
	seed := int64(1)
	if s := os.Getenv("VERIF_SEED"); s != "" {
		if v, err := strconv.ParseInt(s, 10, 64); err == nil {
			seed = v
		}
	}
	c := &Ctx{Prop: prop, Tier: tier, Seed: seed, Level: level, Start: time.Now(),
		known: map[string]Finding{}, knownHits: map[string]int{}, knownEx: map[string]string{},
		distinct: map[string]struct{}{}, Extra: map[string]any{}}
	b, err := os.ReadFile(filepath.Join(Root, "known_findings.json"))
	if err == nil {
		var fs []Finding
		if json.Unmarshal(b, &fs) == nil {
			for _, f := range fs {
				if f.Property == prop && f.Status == "open" {
					c.known[f.ID] = f
				}
			}
		}
	}
	return c
}

// Distinct records one distinct non-trivial case key.
func (c *Ctx) Distinct(key string) {
	c.mu.Lock()
	c.distinct[key] = struct{}{}
	c.mu.Unlock()
}

func (c *Ctx) AddEval(n int64) {
	c.mu.Lock()
	c.Evaluations += n
	c.mu.Unlock()
}

func (c *Ctx) Sample(v any) {
	c.mu.Lock()
	if len(c.Samples) < 6 {
		c.Samples = append(c.Samples, v)
	}
	c.mu.Unlock()
}

// Fail reports a property-level failure observed on the real code. sigs are the ids of
// the known-finding predicates that match this failing case (possibly none).  If one of
// them is listed as open for this property the failure is a KNOWN-FINDING, otherwise a
// VIOLATION with a replay file.  Failures are grouped: one VIOLATION line and one replay
// file per distinct class (the joined signature list, or the detail's class prefix).
func (c *Ctx) Fail(sigs []string, detail string, replay any) {
	c.FailClass("", sigs, detail, replay)
}

func (c *Ctx) FailClass(class string, sigs []string, detail string, replay any) {
	c.mu.Lock()
	defer c.mu.Unlock()
	for _, s := range sigs {
		if _, ok := c.known[s]; ok {
			c.knownHits[s]++
			if _, seen := c.knownEx[s]; !seen {
				c.knownEx[s] = detail
			}
			return
		}
	}
	if class == "" {
		class = strings.Join(sigs, "+")
	}
	if class == "" {
		class = "unclassified"
	}
	for i := range c.viol {
		if c.viol[i].Class == class {
			c.viol[i].Count++
			return
		}
	}
	b, _ := json.MarshalIndent(map[string]any{"property": c.Prop, "tier": c.Tier, "seed": c.Seed, "class": class, "detail": detail, "matched_signatures": sigs, "case": replay}, "", " ")
	h := sha1.Sum(b)
	dir := filepath.Join(Root, "replay")
	os.MkdirAll(dir, 0o755)
	p := filepath.Join(dir, fmt.Sprintf("%s-%x.json", c.Prop, h[:6]))
	os.WriteFile(p, b, 0o644)
	c.viol = append(c.viol, violation{Class: class, Detail: detail, Replay: p, Count: 1})
}

// Absorb merges the results of a sub-run (same property) into c.
func (c *Ctx) Absorb(o *Ctx) {
	o.mu.Lock()
	defer o.mu.Unlock()
	c.mu.Lock()
	defer c.mu.Unlock()
	c.Evaluations += o.Evaluations
	c.TracesValidated += o.TracesValidated
	c.States += o.States
	c.Transitions += o.Transitions
	for k := range o.distinct {
		c.distinct[k] = struct{}{}
	}
	for _, s := range o.Samples {
		if len(c.Samples) < 8 {
			c.Samples = append(c.Samples, s)
		}
	}
	c.viol = append(c.viol, o.viol...)
	c.broken = append(c.broken, o.broken...)
	for k, v := range o.knownHits {
		c.knownHits[k] += v
		if _, ok := c.knownEx[k]; !ok {
			c.knownEx[k] = o.knownEx[k]
		}
	}
	for k, v := range o.Extra {
		c.Extra["tables_"+k] = v
	}
}

// Broken records an infrastructure problem (exit 2).
func (c *Ctx) Broken(format string, a ...any) {
	c.mu.Lock()
	defer c.mu.Unlock()
	m := fmt.Sprintf(format, a...)
	for _, b := range c.broken {
		if b == m {
			return
		}
	}
	if len(c.broken) < 40 {
		c.broken = append(c.broken, m)
	}
}

func (c *Ctx) Violations() int { c.mu.Lock(); defer c.mu.Unlock(); return len(c.viol) }

func (c *Ctx) IsKnown(sig string) bool { _, ok := c.known[sig]; return ok }

// Finish prints verdict lines, writes the evidence file and returns the exit code.
func (c *Ctx) Finish() int {
	c.mu.Lock()
	defer c.mu.Unlock()
	ids := make([]string, 0, len(c.knownHits))
	for id := range c.knownHits {
		ids = append(ids, id)
	}
	sort.Strings(ids)
	for _, id := range ids {
		fmt.Printf("KNOWN-FINDING: property=%s %s: %s (%d occurrences; e.g. %s)\n", c.Prop, id, c.known[id].What, c.knownHits[id], trunc(c.knownEx[id], 300))
	}
	for id := range c.known {
		if c.knownHits[id] == 0 {
			fmt.Printf("NOTE: listed finding %s for %s did not occur in this run (tier %s)\n", id, c.Prop, c.Tier)
		}
	}
	for _, v := range c.viol {
		fmt.Printf("VIOLATION property=%s replay=%s\n", c.Prop, v.Replay)
		fmt.Printf("  class=%s occurrences=%d first: %s\n", v.Class, v.Count, trunc(v.Detail, 600))
	}
	for _, b := range c.broken {
		fmt.Printf("BROKEN: %s\n", b)
	}
	cov := map[string]any{
		"evaluations":         c.Evaluations,
		"distinct_nontrivial": len(c.distinct),
		"rule":                c.Rule,
		"samples":             c.Samples,
		"exhaustive":          c.Exhaustive,
	}
	if c.Level == "model_checking" {
		cov["states"] = c.States
		cov["transitions"] = c.Transitions
		cov["traces_validated_against_impl"] = c.TracesValidated
	}
	for k, v := range c.Extra {
		cov[k] = v
	}
	kf := map[string]int{}
	for k, v := range c.knownHits {
		kf[k] = v
	}
	cov["known_findings_hit"] = kf
	if len(c.Samples) == 0 {
		cov["samples"] = []any{"(no case executed)"}
	}
	ev := map[string]any{
		"property_id": c.Prop, "tier": c.Tier, "seed": c.Seed, "level": c.Level,
		"coverage": cov, "assumptions": c.Assumptions,
		"wall_s": time.Since(c.Start).Seconds(), "violations": len(c.viol),
	}
	if len(c.broken) > 0 {
		ev["broken"] = c.broken
	}
	b, _ := json.MarshalIndent(ev, "", " ")
	os.MkdirAll(filepath.Join(Root, "evidence"), 0o755)
	os.WriteFile(filepath.Join(Root, "evidence", c.Prop+".json"), b, 0o644)
	fmt.Printf("%s tier=%s seed=%d evaluations=%d distinct=%d states=%d traces=%d violations=%d known=%d wall=%.1fs\n",
		c.Prop, c.Tier, c.Seed, c.Evaluations, len(c.distinct), c.States, c.TracesValidated, len(c.viol), len(c.knownHits), time.Since(c.Start).Seconds())
	if len(c.viol) > 0 {
		return 1
	}
	if len(c.broken) > 0 {
		return 2
	}
	return 0
}

func trunc(s string, n int) string {
	if len(s) > n {
		return s[:n] + "…"
	}
	return s
}

// Catch runs f and converts a panic into a string (empty if none).
func Catch(f func()) (panicked string) {
	defer func() {
		if r := recover(); r != nil {
			panicked = fmt.Sprint(r)
			if panicked == "" {
				panicked = "panic"
			}
		}
	}()
	f()
	return ""
}
