# sourced by bin/setup and bin/check
export GOFLAGS=-mod=mod GOPROXY=off GOSUMDB=off GOTOOLCHAIN=local
export GOCACHE=/verif/.work/gocache
export CARGO_NET_OFFLINE=true PIP_NO_INDEX=1
mkdir -p /verif/.work /verif/replay /verif/evidence
