NOT_YET = {}
CHECKS["C10"] = dict(
 level="model_checking",
 text="TLC exhaustively checks the Handle contract spec (all reachable states of the MC instance), generates every call sequence of depth 2 (quick) / 3 (thorough) over the boundary alphabet plus random walks, and validates the traces recorded from real handles of all six filesystem types against Handle_Trace (every event must be a step the contract allows, in real byte numbers).",
 note="Trusted: TLC, the Json module, memdev, the unit->byte map; files are written through the library's own sequential write path; data correctness is projected as 'offset at which the delivered bytes occur in the known content'.",
 technique="TLA+ contract spec + TLC behaviour generation + trace validation of real handles")
CHECKS["C09"] = dict(
 level="model_checking",
 text="The WriteAt/Sync program of the real gpt.Table.Write is recorded per (old,new) table pair and becomes the writer of GptCrash.tla (device with volatile cache, Sync, power cut persisting any subset of in-flight sectors). TLC explores every prefix x subset (exhaustive up to 12 in-flight sectors, generating family above), and every crash state it reaches is materialised on a real image and read with the real gpt.Read and partition.Read; GptCrash_Trace judges each outcome (exactly old or exactly new; new from primary when done) and compares it with the model's ReadBack.",
 note="Assumes atomic logical-sector writes and that Sync is a barrier; CRC collisions of mixed arrays are not modelled (the real reader is executed). A model/real disagreement that does not violate the property is reported as MODEL-DRIFT (exit 2).",
 technique="TLA+ crash model with recorded write program + TLC-enumerated crash states replayed on the real reader + trace validation")
CHECKS["C02"] = dict(
 level="model_checking",
 text="PartTable.tla writes the table input space down as boundary-class tuples; TLC enumerates every tuple within 2 (quick) / 3+ (thorough) deviations of the base tuple; each is concretised into a real gpt/mbr table, written with Disk.Partition onto a sparse in-memory disk (up to 3 TiB, 512/4096-byte sectors, over blank/GPT/MBR), read back from the bytes alone, parsed by an independent parser (own CRC32/GUID decoding), and the recorded events are judged by TLC against P_C02 (round trip, GetPartition ranges, on-disk validity).",
 note="Trusted: TLC, rawpt parser, memdev. Numbers >= 2^31 travel as decimal strings (TLC ints are 32-bit) and are only compared. Refusals are never violations (the statement speaks of tables Write accepts); panics are.",
 technique="TLA+ input-class spec + TLC tuple enumeration + trace validation of recorded write/read-back events")
CHECKS["C13"] = dict(
 level="model_checking",
 text="PartIO.tla states the postconditions of WritePartitionContents / ReadPartitionContents / CopyPartitionRaw over geometry classes (start*sector across 2^32 bytes, start = 2^32-1 sectors, sizes not a multiple of the physical sector, logical != physical sector size, reader length size-1/size/size+1, odd chunking). TLC enumerates the tuples (quick: within 3 deviations of the base; thorough: full product of 4608), each is executed on a sparse guard-patterned in-memory disk through the real Disk API, and PartIO_Trace judges every recorded event.",
 note="Trusted: TLC, memdev write log and guard pattern. Multi-GiB partition sizes are not streamed (start offsets beyond 4 GiB / 2 TiB are); byte counts travel as strings.",
 technique="TLA+ postcondition spec over geometry classes + TLC tuple enumeration + trace validation of recorded I/O events")
CHECKS["C15"] = dict(
 level="fault_enumeration",
 text="GptParse.tla defines the complete corruption space (every GPT header field x boundary value x copy x header-CRC-recomputed, all 2-field combinations of the size-determining fields, truncated devices, MBR field corruptions, seeded random images) and the allowed outcome classes; TLC enumerates it, every tuple is executed in a child process (deadline, address-space limit, TotalAlloc accounting) against the real partition.Read, and GptParse_Trace judges each outcome (table or error only; bounded allocation; a returned table must come from a copy the independent parser finds CRC-valid and must decode to the same entries).",
 note="Robustness is observed, not modelled: the TLA+ contribution is the enumerated fault space and the outcome predicate. Allocation bound 8 x device + 64 MiB; deadline 15 s per case.",
 technique="TLA+-enumerated fault space + child-process execution + trace validation of outcome classes")
CHECKS["C01"] = dict(
 level="model_checking",
 text="FatTree.tla models the volume as a plain tree (accept / refuse branch per call, derived free space, Fill demanding reuse of released space). TLC checks the MC instance exhaustively (quick ~1.7e5 states, thorough 5.8e6), generates every call sequence of depth 2 (quick) / 3 (thorough) over the boundary alphabet plus -simulate walks with Fill, and FatTree_Trace validates the traces recorded on real FAT12/16/32 volumes (several sizes, start offsets, name sets incl. 8.3-colliding names): after every call the live walk, the walk after re-opening from bytes and the re-read through the writing handle must equal the tree the spec allows.",
 note="Trusted: TLC, memdev, the unit->byte map, the tag-based content projection. One handle open at a time. Refusals are legal everywhere except Fill after release.",
 technique="TLA+ tree spec + TLC behaviour generation (BFS + simulate) + trace validation of real volumes")
CHECKS["C08"] = dict(
 level="model_checking",
 text="FatDisk.tla states the on-disk soundness predicates once (boot geometry, FAT copies, chains in range/terminated/long enough, no cross-links, no lost clusters, nothing marked beyond the data area). FatDisk_MC, a cluster-level model of the operations with any-cluster allocation, is checked exhaustively for the predicates and for step-refinement of FatTree; FatDisk_Trace evaluates the same predicates on the independent raw parse of real volumes after Create and after EVERY call (accepted or refused) of the C01 behaviours.",
 note="Trusted: TLC, the independent parser rawfat. FAT type by structure. Large volumes log chains of live entries plus the used-cluster census.",
 technique="TLA+ cluster-level spec with refinement + trace validation of independently parsed on-disk state after every call")
CHECKS["C14"] = dict(
 level="model_checking",
 text="Repro.tla is a self-composition (two runs in lock-step, independent wall clocks): TLC shows the 2-safety invariant image_A = image_B for all clock schedules when every stamp is a function of SOURCE_DATE_EPOCH, and finds the diverging schedule as soon as one operation reads the clock. Binding: TLC-generated FAT behaviours are executed twice in separate child processes > 2.1 s apart, on volumes at different start offsets, for four epoch classes; the SHA-256 of the volume range after every call is compared by Repro_Trace (first diverging call is named). Tables: every PartTable tuple is written twice and rewritten after being read; PartTable_Trace judges P_C14.",
 note="Trusted: TLC, SHA-256 prefix as byte identity, zero-filled background device. FAT12/16/32 on five volume shapes (thorough).",
 technique="TLA+ self-composition (2-safety) + paired executions in separate processes + trace validation")
CHECKS["C17"] = dict(
 level="model_checking",
 text="Lru.tla is a PlusCal transcription of lru.go with one label per lock operation / observable step. TLC explores every interleaving of 2 readers x 2 Gets + resizer (quick, 1.4e5 states; thorough adds 3 readers) for deadlock, structure, bound, returned data and lock discipline, and termination under weak fairness. Binding: TLC -simulate emits complete interleavings which are FORCED on real goroutines through gates compiled into lru.go (tag verif): one release = one spec step, and the real cache state (keys, LRU order, which blocks hold data, maxBlocks) is compared with the spec state after every step; free-running stress runs on a real squashfs image (cache sizes 0/1 block/few/default, concurrent SetCacheSize, ReadAt yields, GOMAXPROCS 1..16) compare every goroutine's bytes with the known content in a -race binary.",
 note="Hooks: add-only gate calls in filesystem/squashfs/lru.go, no-op without the verif tag. Un-gated accesses (GetCacheSize reads maxBlocks unlocked) are outside the model; the race detector is auxiliary. A divergence between code and spec that does not break the property is MODEL-DRIFT (exit 2).",
 technique="PlusCal spec + TLC interleaving exploration + TLC-generated schedules forced on real goroutines via gates + race-detector stress")
CHECKS["C04"] = dict(
 level="model_checking",
 text="ExtTree.tla models an ext4 volume as a plain tree of files, directories and symlinks with attributes (accept / refuse branch per call, frame condition on every other path and every other attribute). TLC generates every call sequence of depth 2 (quick) / 3 (thorough) over the boundary alphabet plus -simulate walks; scripted behaviours add many-extent files, directory churn past one block and multi-block files written in pieces. ExtTree_Trace validates the traces recorded on real ext4 volumes (1 KiB / 2 KiB / 4 KiB blocks, with/without journal and metadata checksums, start 0 / 1 MiB / > 4 GiB): live walk, walk after re-opening from bytes, re-read through the writing handle and Stat attributes after every call; a read error on a file the library wrote is rejected.",
 note="Trusted: TLC, memdev, the unit->byte map and tag projection. No Rename/Truncate (not in the statement; Rename is not implemented).",
 technique="TLA+ tree spec + TLC behaviour generation (BFS + simulate) + trace validation of real volumes")
CHECKS["C05"] = dict(
 level="model_checking",
 text="ExtFsck.tla enumerates the Create parameter space (block size, journal, metadata_csum, 64bit/flex_bg/sparse_super2/blocks per group/inode ratio+count/dir_index/huge_file/resize inode, size class) as tuples; for each tuple TLC-generated ExtTree call sequences plus scripted behaviours are executed and the image is handed to e2fsck -f -n after Create and after EVERY call (accepted or refused), and debugfs extracts every file at the end; ExtFsck_Trace judges each event (exit status 0, extracted bytes equal). The first offending call of a behaviour is named.",
 note="Reference oracle: e2fsprogs 1.47.0 (shares nothing with the library). Quick: tuples within 1 deviation of the base; thorough: 2 deviations and more sequences. One recorded finding (BlocksPerGroup=2048 resize inode).",
 technique="TLA+-enumerated parameter space and call sequences + reference checker (e2fsck/debugfs) after every call + trace validation")
