NOT_YET = {}
CHECKS["C10"] = dict(
 level="model_checking",
 text="TLC exhaustively checks the Handle contract spec (all reachable states of the MC instance), generates every call sequence of depth 2 (quick) / 3 (thorough) over the boundary alphabet plus random walks, and validates the traces recorded from real handles of all six filesystem types against Handle_Trace (every event must be a step the contract allows, in real byte numbers).",
 note="Trusted: TLC, the Json module, memdev, the unit->byte map; files are written through the library's own sequential write path; data correctness is projected as 'offset at which the delivered bytes occur in the known content'.",
 technique="TLA+ contract spec + TLC behaviour generation + trace validation of real handles")
